#!/usr/bin/env python3
"""Regenerates MANIFEST.json from checks.json and manifest_meta.json."""
import json
checks = json.load(open('/verif/checks.json'))
meta = json.load(open('/verif/manifest_meta.json'))
props = [json.loads(l) for l in open('/verif/properties.jsonl')]
out = {
 "version": 1,
 "setup_cmd": "/verif/build.sh",
 "hooks": {
  "guard": "verif",
  "enable": "no source change in /repo: harness files (//go:build verif) and the zzverif API package are injected with go/packages Overlay for the symbolic VM and with `go test -tags verif -overlay` for native cross-validation/replay",
  "baseline_off_cmd": "/verif/baseline_off.sh",
  "source_commits": [],
  "add_only": True
 },
 "engines": [{"name": "symgo", "path": "/verif/engine", "serves_properties": sorted(k for k in checks if k in meta["claims"]),
   "kind_free_text": "bounded symbolic execution of go/ssa built from /repo's working tree; bit-vector SMT queries to z3 (one incremental z3 -in process per worker); counterexamples replayed natively"}],
 "checks": [],
 "notes": meta.get("notes", ""),
 "not_applicable": []
}
for p in props:
    pid = p['id']
    if pid in meta["claims"] and pid in checks:
        m = meta["claims"][pid]
        out["checks"].append({
         "property_id": pid,
         "quick_cmd": "/verif/bin/check %s --tier quick" % pid,
         "thorough_cmd": "/verif/bin/check %s --tier thorough" % pid,
         "evidence_file": "/verif/evidence/%s.json" % pid,
         "replay_cmd_template": "/verif/bin/check %s --replay {path}" % pid,
         "engine": "symgo",
         "level_claimed": {"category": "model_checking", "text": m["text"], "design_ref": m.get("design_ref", "DESIGN.md §3")},
         "level_note": m["note"],
         "technique": m.get("technique", "bounded symbolic execution of the real code (go/ssa) with SMT (z3) deciding every branch and assertion; native replay of counterexamples")
        })
    else:
        out["not_applicable"].append({"property_id": pid, "reason": meta["not_applicable"].get(pid, "no solver-based check built yet")})
json.dump(out, open('/verif/MANIFEST.json', 'w'), indent=1)
print("claims:", len(out["checks"]), "n/a:", len(out["not_applicable"]))
