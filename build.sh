#!/bin/bash
# Builds the check driver (offline).
set -e
cd /verif/engine
export GOFLAGS=-mod=mod GOPROXY=off GOSUMDB=off GOTOOLCHAIN=local
go1.26.8 build -o /verif/bin/check ./cmd/check
