#!/usr/bin/env python3
"""Copies verified seeded changes from /tmp/wt/out/<id>/<v> to /verif/seeded/<id>-<v>/ with meta.json."""
import json, os, shutil, sys, re
detect = json.load(open('/verif/seeded/detection.json')) if os.path.exists('/verif/seeded/detection.json') else {}
for res in sorted(os.listdir('/tmp/sv')):
    if not res.endswith('.result'): continue
    name = res[:-7]
    pid, v = name.split('-')
    src = '/tmp/wt/out/%s/%s' % (pid, v)
    txt = open('/tmp/sv/' + res).read()
    ok = ('demo_with_change: fails (good)' in txt and 'demo_without_change: passes (good)' in txt and 'build: ok' in txt and 'suite_with_change: pass' in txt)
    if not ok:
        print('SKIP (not fully verified):', name); continue
    dst = '/verif/seeded/%s' % name
    os.makedirs(dst, exist_ok=True)
    for f in ('patch.diff', 'zz_demo_test.go', 'demo_path.txt', 'notes.md'):
        if f == 'patch.diff' and os.path.exists(os.path.join(dst, 'REBASED.txt')): continue
        if os.path.exists(os.path.join(src, f)): shutil.copy(os.path.join(src, f), os.path.join(dst, f))
    notes = open(os.path.join(src, 'notes.md')).read() if os.path.exists(os.path.join(src, 'notes.md')) else ''
    meta = {
        'property': pid,
        'variant': v,
        'written_by': 'independent sub-agent given only the property text and a scratch worktree',
        'needs_to_manifest': (re.search(r'(?is)(manifest|trigger)[^\n]*\n(.{0,600})', notes).group(0)[:700] if re.search(r'(?i)(manifest|trigger)', notes) else 'see notes.md'),
        'confirmed_by_me': {
            'how': 'tools/seed_verify.sh in a scratch worktree of /repo HEAD: patch applies and builds; all 1654 BASELINE stable tests still pass with it (flaky/timing tests re-run); demonstration TestZZDemo fails with the change and passes without it',
            'result': [l for l in txt.splitlines() if ':' in l and not l.startswith('stable_pass')],
        },
        'checks_run_against_it': detect.get(name, 'see DESIGN.md section 6'),
    }
    json.dump(meta, open(os.path.join(dst, 'meta.json'), 'w'), indent=1)
    print('packed', name)
