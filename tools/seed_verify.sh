#!/bin/bash
# seed_verify.sh <prop> <variant>: confirms a seeded change delivered under /tmp/wt/out/<prop>/<variant>
# in a scratch worktree of /repo's HEAD: (1) applies and builds, (2) BASELINE stable tests still pass,
# (3) demo fails with the change, (4) demo passes without. Writes /tmp/sv/<prop>-<variant>.result
P=$1; V=$2; SRC=/tmp/wt/out/$P/$V; WT=/tmp/sv/wt-$P-$V; OUT=/tmp/sv/$P-$V.result
mkdir -p /tmp/sv; rm -f $OUT
unset GOFLAGS; export GOPROXY=off
git -C /repo worktree add -q --detach $WT HEAD || { echo "worktree failed" > $OUT; exit 1; }
cd $WT
DEMO=$(cat $SRC/demo_path.txt | tr -d '\n ')
PKG=./$(dirname $DEMO)
res() { echo "$1" >> $OUT; }
if ! git apply $SRC/patch.diff 2>>$OUT; then res "apply: FAIL"; else
  res "apply: ok"
  if go build ./... 2>>$OUT && go test -vet=off -count=1 -run '^$' ./... >/dev/null 2>>$OUT; then res "build: ok"; else res "build: FAIL"; fi
  if /verif/tools/suite_check.py $WT >> $OUT 2>&1; then res "suite_with_change: pass"; else res "suite_with_change: FAIL"; fi
  cp $SRC/zz_demo_test.go $DEMO
  if go test -vet=off -count=1 -run 'TestZZDemo' $PKG > $OUT.demo_with 2>&1; then res "demo_with_change: passes (BAD)"; else res "demo_with_change: fails (good)"; fi
  git apply -R $SRC/patch.diff
  if go test -vet=off -count=1 -run 'TestZZDemo' $PKG > $OUT.demo_without 2>&1; then res "demo_without_change: passes (good)"; else res "demo_without_change: FAILS (BAD)"; fi
fi
cd /; git -C /repo worktree remove --force $WT
res "done"
