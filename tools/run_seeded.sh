#!/bin/bash
# run_seeded.sh <patch.diff> <check-id> [tier]: applies a seeded change to /repo, runs one check, reverts.
PATCH=$1; ID=$2; TIER=${3:-quick}
git -C /repo apply "$PATCH" || { echo "apply failed"; exit 3; }
timeout 3000 /verif/bin/check $ID --tier $TIER --no-evidence > /tmp/run_seeded.out 2>&1; RC=$?
git -C /repo checkout -- . 
echo "check=$ID tier=$TIER exit=$RC $(grep -c '^VIOLATION' /tmp/run_seeded.out) violation line(s): $(grep -A1 '^VIOLATION' /tmp/run_seeded.out | grep assertion | head -2 | tr '\n' ' ' | cut -c1-200)"
[ $RC -eq 2 ] && grep -A3 INCONCLUSIVE /tmp/run_seeded.out | cut -c1-300
exit 0
