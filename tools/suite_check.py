#!/usr/bin/env python3
"""Runs the repository test suite in <dir> (default /repo) with the verif guard off and
checks that every test in BASELINE.json's stable_pass passes. Exit 0 iff so."""
import json, subprocess, sys, os
d = sys.argv[1] if len(sys.argv) > 1 else '/repo'
base = json.load(open('/root/.vp/BASELINE.json'))
stable = set(base['stable_pass'])
env = dict(os.environ); env.pop('GOFLAGS', None); env['GOPROXY'] = 'off'
p = subprocess.run(['go', 'test', '-json', '-vet=off', '-count=1', '-timeout', '25m', './...'], cwd=d, env=env, capture_output=True, text=True)
res = {}
for line in p.stdout.splitlines():
    try: ev = json.loads(line)
    except Exception: continue
    if ev.get('Action') in ('pass', 'fail', 'skip') and ev.get('Test'):
        res[ev['Package'] + '::' + ev['Test']] = ev['Action']
missing = [t for t in stable if res.get(t) != 'pass']
print('stable_pass: %d, passing now: %d, not passing: %d' % (len(stable), len(stable) - len(missing), len(missing)))
for t in sorted(missing)[:30]:
    print('  NOT PASSING:', t, res.get(t))
sys.exit(1 if missing else 0)
