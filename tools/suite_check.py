#!/usr/bin/env python3
"""Runs the repository test suite in <dir> (default /repo) with the verif guard off and
checks that every test in BASELINE.json's stable_pass passes. Exit 0 iff so."""
import json, subprocess, sys, os
d = sys.argv[1] if len(sys.argv) > 1 else '/repo'
base = json.load(open('/root/.vp/BASELINE.json'))
stable = set(base['stable_pass'])
env = dict(os.environ); env.pop('GOFLAGS', None); env['GOPROXY'] = 'off'
p = subprocess.run(['go', 'test', '-json', '-vet=off', '-count=1', '-timeout', '25m', './...'], cwd=d, env=env, capture_output=True, text=True)
res = {}
for line in p.stdout.splitlines():
    try: ev = json.loads(line)
    except Exception: continue
    if ev.get('Action') in ('pass', 'fail', 'skip') and ev.get('Test'):
        res[ev['Package'] + '::' + ev['Test']] = ev['Action']
missing = [t for t in stable if res.get(t) != 'pass']
# timing-sensitive / flaky tests: re-run the affected top-level tests alone (up to 2 times)
for attempt in range(2):
    if not missing: break
    tops = sorted({(t.split('::')[0], t.split('::')[1].split('/')[0]) for t in missing})
    for pkg, top in tops:
        rel = './' + pkg[len('github.com/bufbuild/protocompile'):].lstrip('/')
        q = subprocess.run(['go', 'test', '-json', '-vet=off', '-count=1', '-run', '^%s$' % top, rel], cwd=d, env=env, capture_output=True, text=True)
        for line in q.stdout.splitlines():
            try: ev = json.loads(line)
            except Exception: continue
            if ev.get('Action') in ('pass', 'fail', 'skip') and ev.get('Test'):
                k = ev['Package'] + '::' + ev['Test']
                if ev['Action'] == 'pass' or k not in res or res[k] != 'pass':
                    res[k] = ev['Action']
    missing = [t for t in stable if res.get(t) != 'pass']
print('stable_pass: %d, passing now: %d, not passing: %d' % (len(stable), len(stable) - len(missing), len(missing)))
for t in sorted(missing)[:30]:
    print('  NOT PASSING:', t, res.get(t))
sys.exit(1 if missing else 0)
