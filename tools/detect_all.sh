#!/bin/bash
# Works on a scratch copy of /repo (REPO2) so that /repo itself is never modified.
REPO2=${REPO2:-/tmp/repo2}; rm -rf $REPO2; cp -a /repo $REPO2; export VERIF_REPO_OVERRIDE=$REPO2
# Runs each packed seeded change against the check(s) of its property (quick tier) and records the outcome.
OUT=${DETECT_OUT:-/verif/seeded/detection.txt}; : > $OUT
declare -A EXTRA=( [C02-a]="C26" [C06-b]="C07" [C13-b]="C11 C12" [C06-a]="C05" [C19-b]="C05" [C05-b]="C16" [C05-a]="C06" [C16-a]="C05" [C16-b]="C17" [C01-b]="C15" [C09-a]="C24" [C10-b]="C05" [C36-b]="C33" )
for d in ${SEEDS:-/verif/seeded/C*-*}; do
  n=$(basename $d); p=${n%-*}
  checks="$p ${EXTRA[$n]}"
  for c in $checks; do
    grep -q "\"$c\"" /verif/checks.json || { echo "$n $c no-such-check" >> $OUT; continue; }
    git -C $REPO2 apply $d/patch.diff || { echo "$n $c apply-failed" >> $OUT; continue; }
    timeout 2400 /verif/bin/check $c --tier quick --no-evidence > /tmp/detect.out 2>&1; rc=$?
    git -C $REPO2 checkout -- .
    lab=$(grep -A1 '^VIOLATION' /tmp/detect.out | grep -v '^VIOLATION\|^--' | head -1 | sed 's/^ *//' | cut -c1-150)
    echo "$n $c exit=$rc $lab" >> $OUT
  done
done
echo done >> $OUT
rm -rf $REPO2
