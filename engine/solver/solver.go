// Package solver drives an SMT solver process (z3 -in, z3-new -in, cvc5 --incremental)
// over a pipe, keeping the asserted path condition in sync incrementally.
package solver

import (
	"os"
	"bufio"
	"fmt"
	"io"
	"os/exec"
	"sort"
	"strconv"
	"strings"
	"time"

	"symgo/term"
)

type Result int

const (
	Unsat Result = iota
	Sat
	Unknown
	Error
)

func (r Result) String() string { return [...]string{"unsat", "sat", "unknown", "error"}[r] }

// Assertion is a path-condition entry with a memoised SMT string.
type Assertion struct {
	T *term.T
	S string
}

func NewAssertion(t *term.T) Assertion { return Assertion{T: t, S: term.SMT(t)} }

type Solver struct {
	Name      string
	cmd       *exec.Cmd
	in        io.WriteCloser
	bw        *bufio.Writer
	out       *bufio.Reader
	stack     []string
	declared  map[string]int
	Queries   int
	NSat      int
	NUnsat    int
	NUnknown  int
	NError    int
	Time      time.Duration
	TimeoutMs int
	LastErr   string
	Log       io.Writer
}

// Start launches a solver. kind: "z3", "z3-new", "cvc5".
func Start(kind string, timeoutMs int) (*Solver, error) {
	var cmd *exec.Cmd
	switch kind {
	case "z3":
		cmd = exec.Command("z3", "-in", "-smt2")
	case "z3-new":
		cmd = exec.Command("z3-new", "-in", "-smt2")
	case "cvc5":
		cmd = exec.Command("cvc5", "--incremental", "--lang=smt2", "--produce-models", fmt.Sprintf("--tlimit-per=%d", timeoutMs))
	default:
		return nil, fmt.Errorf("unknown solver %q", kind)
	}
	in, err := cmd.StdinPipe()
	if err != nil {
		return nil, err
	}
	out, err := cmd.StdoutPipe()
	if err != nil {
		return nil, err
	}
	cmd.Stderr = cmd.Stdout
	if err := cmd.Start(); err != nil {
		return nil, err
	}
	s := &Solver{Name: kind, cmd: cmd, in: in, bw: bufio.NewWriterSize(in, 1<<16), out: bufio.NewReaderSize(out, 1<<16), declared: map[string]int{}, TimeoutMs: timeoutMs}
	if lf := os.Getenv("SYMGO_SOLVER_LOG"); lf != "" {
		f, _ := os.Create(fmt.Sprintf("%s.%d", lf, cmd.Process.Pid))
		s.Log = f
	}
	s.send("(set-option :global-declarations true)")
	if kind != "cvc5" {
		s.send(fmt.Sprintf("(set-option :timeout %d)", timeoutMs))
		s.send("(set-option :model.completion true)")
	} else {
		s.send("(set-logic ALL)")
	}
	return s, nil
}

func (s *Solver) Close() {
	if s == nil || s.cmd == nil {
		return
	}
	s.in.Close()
	s.cmd.Process.Kill()
	s.cmd.Wait()
	s.cmd = nil
}

func (s *Solver) send(line string) {
	if s.Log != nil {
		fmt.Fprintln(s.Log, line)
	}
	s.bw.WriteString(line)
	s.bw.WriteByte('\n')
}

func (s *Solver) declare(t *term.T) {
	vars := map[string]int{}
	term.Vars(t, vars, map[*term.T]bool{})
	for n, w := range vars {
		if _, ok := s.declared[n]; !ok {
			s.declared[n] = w
			if w == 0 {
				s.send(fmt.Sprintf("(declare-const %s Bool)", n))
			} else {
				s.send(fmt.Sprintf("(declare-const %s (_ BitVec %d))", n, w))
			}
		}
	}
}

// sync makes the solver's assertion stack equal to pc.
func (s *Solver) sync(pc []Assertion) {
	k := 0
	for k < len(pc) && k < len(s.stack) && pc[k].S == s.stack[k] {
		k++
	}
	if n := len(s.stack) - k; n > 0 {
		s.send(fmt.Sprintf("(pop %d)", n))
		s.stack = s.stack[:k]
	}
	for ; k < len(pc); k++ {
		s.declare(pc[k].T)
		s.send("(push 1)")
		s.send("(assert " + pc[k].S + ")")
		s.stack = append(s.stack, pc[k].S)
	}
}

func (s *Solver) readStatus() Result {
	s.bw.Flush()
	sawErr := false
	for {
		line, err := s.out.ReadString('\n')
		if err != nil {
			s.LastErr = "solver died: " + err.Error()
			return Error
		}
		line = strings.TrimSpace(line)
		switch {
		case line == "sat":
			if sawErr {
				return Error
			}
			return Sat
		case line == "unsat":
			if sawErr {
				return Error
			}
			return Unsat
		case line == "unknown" || line == "timeout":
			if sawErr {
				return Error
			}
			return Unknown
		case strings.HasPrefix(line, "(error"):
			sawErr = true
			s.LastErr = line
		case line == "" || line == "success":
		default:
			if strings.Contains(line, "error") {
				sawErr = true
				s.LastErr = line
			}
		}
	}
}

// Check decides satisfiability of pc ∧ extra (extra may be nil). If wantModel and the
// answer is sat, the values of vars (name -> width) are returned.
func (s *Solver) Check(pc []Assertion, extra []*term.T, vars map[string]int) (Result, map[string]uint64) {
	start := time.Now()
	s.Queries++
	s.sync(pc)
	s.send("(push 1)")
	for _, e := range extra {
		s.declare(e)
		s.send("(assert " + term.SMT(e) + ")")
	}
	s.send("(check-sat)")
	r := s.readStatus()
	var model map[string]uint64
	if r == Sat && vars != nil {
		names := make([]string, 0, len(vars))
		for n := range vars {
			if _, ok := s.declared[n]; ok {
				names = append(names, n)
			}
		}
		sort.Strings(names)
		model = map[string]uint64{}
		if len(names) > 0 {
			s.send("(get-value (" + strings.Join(names, " ") + "))")
			txt, err := s.readSexp()
			if err != nil {
				r = Error
				s.LastErr = err.Error()
			} else {
				parseValues(txt, model)
			}
		}
		for n := range vars {
			if _, ok := model[n]; !ok {
				model[n] = 0
			}
		}
	}
	s.send("(pop 1)")
	switch r {
	case Sat:
		s.NSat++
	case Unsat:
		s.NUnsat++
	case Unknown:
		s.NUnknown++
	default:
		s.NError++
	}
	s.Time += time.Since(start)
	return r, model
}

func (s *Solver) readSexp() (string, error) {
	s.bw.Flush()
	var sb strings.Builder
	depth := 0
	started := false
	for {
		c, err := s.out.ReadByte()
		if err != nil {
			return "", err
		}
		sb.WriteByte(c)
		if c == '(' {
			depth++
			started = true
		} else if c == ')' {
			depth--
			if started && depth == 0 {
				return sb.String(), nil
			}
		}
	}
}

func parseValues(txt string, model map[string]uint64) {
	// ((name #x..) (name true) (name (_ bv5 8)) ...)
	txt = strings.TrimSpace(txt)
	if strings.HasPrefix(txt, "(error") {
		return
	}
	toks := tokenize(txt)
	// skip first '('
	i := 1
	for i < len(toks) {
		if toks[i] != "(" {
			i++
			continue
		}
		if i+2 >= len(toks) {
			break
		}
		name := toks[i+1]
		i += 2
		var val uint64
		switch {
		case toks[i] == "true":
			val = 1
			i++
		case toks[i] == "false":
			val = 0
			i++
		case strings.HasPrefix(toks[i], "#x"):
			val, _ = strconv.ParseUint(toks[i][2:], 16, 64)
			i++
		case strings.HasPrefix(toks[i], "#b"):
			val, _ = strconv.ParseUint(toks[i][2:], 2, 64)
			i++
		case toks[i] == "(": // (_ bvN w)
			if i+2 < len(toks) && toks[i+1] == "_" && strings.HasPrefix(toks[i+2], "bv") {
				val, _ = strconv.ParseUint(toks[i+2][2:], 10, 64)
			}
			for i < len(toks) && toks[i] != ")" {
				i++
			}
			i++
		default:
			i++
		}
		model[name] = val
		// skip to closing paren
		for i < len(toks) && toks[i] != ")" {
			i++
		}
		i++
	}
}

func tokenize(s string) []string {
	var toks []string
	cur := strings.Builder{}
	flush := func() {
		if cur.Len() > 0 {
			toks = append(toks, cur.String())
			cur.Reset()
		}
	}
	for i := 0; i < len(s); i++ {
		c := s[i]
		switch c {
		case '(', ')':
			flush()
			toks = append(toks, string(c))
		case ' ', '\n', '\t', '\r':
			flush()
		default:
			cur.WriteByte(c)
		}
	}
	flush()
	return toks
}

// Script renders pc ∧ extra as a standalone SMT-LIB2 script (for second-solver re-checks).
func Script(pc []Assertion, extra []*term.T) string {
	vars := map[string]int{}
	seen := map[*term.T]bool{}
	for _, a := range pc {
		term.Vars(a.T, vars, seen)
	}
	for _, e := range extra {
		term.Vars(e, vars, seen)
	}
	names := make([]string, 0, len(vars))
	for n := range vars {
		names = append(names, n)
	}
	sort.Strings(names)
	var sb strings.Builder
	for _, n := range names {
		if vars[n] == 0 {
			fmt.Fprintf(&sb, "(declare-const %s Bool)\n", n)
		} else {
			fmt.Fprintf(&sb, "(declare-const %s (_ BitVec %d))\n", n, vars[n])
		}
	}
	for _, a := range pc {
		sb.WriteString("(assert " + a.S + ")\n")
	}
	for _, e := range extra {
		sb.WriteString("(assert " + term.SMT(e) + ")\n")
	}
	sb.WriteString("(check-sat)\n")
	return sb.String()
}

// CheckScript runs a standalone script through a fresh push/pop on this solver
// (the solver's own stack is emptied first).
func (s *Solver) CheckScript(pc []Assertion, extra []*term.T) Result {
	r, _ := s.Check(pc, extra, nil)
	return r
}

func init() {
	_ = os.Getenv
}
