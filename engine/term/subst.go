package term

// Subst replaces variables by the given terms (usually constants) and re-simplifies.
// Returns t itself when nothing changes.
func Subst(t *T, bind map[string]*T) *T {
	if len(bind) == 0 {
		return t
	}
	memo := map[*T]*T{}
	var rec func(x *T) *T
	rec = func(x *T) *T {
		switch x.Op {
		case Const:
			return x
		case Var:
			if b, ok := bind[x.Name]; ok {
				return b
			}
			return x
		}
		if r, ok := memo[x]; ok {
			return r
		}
		changed := false
		args := make([]*T, len(x.Args))
		for i, a := range x.Args {
			args[i] = rec(a)
			if args[i] != a {
				changed = true
			}
		}
		r := x
		if changed {
			r = rebuild(x, args)
		}
		memo[x] = r
		return r
	}
	return rec(t)
}

func rebuild(x *T, a []*T) *T {
	switch x.Op {
	case Not:
		return MkNot(a[0])
	case And:
		return MkAnd(a[0], a[1])
	case Or:
		return MkOr(a[0], a[1])
	case Eq:
		return MkEq(a[0], a[1])
	case Ite:
		return MkIte(a[0], a[1], a[2])
	case Ult, Ule, Slt, Sle:
		return MkCmp(x.Op, a[0], a[1])
	case BNot:
		return MkBNot(a[0])
	case Neg:
		return MkNeg(a[0])
	case Extract:
		return MkExtract(x.Hi, x.Lo, a[0])
	case Concat:
		return MkConcat(a[0], a[1])
	case ZExt:
		return MkZExt(x.W, a[0])
	case SExt:
		return MkSExt(x.W, a[0])
	default:
		return MkBin(x.Op, a[0], a[1])
	}
}

// HasVar reports whether t mentions any variable in the set.
func HasVar(t *T, set map[string]*T) bool {
	if len(set) == 0 || t.Op == Const {
		return false
	}
	seen := map[*T]bool{}
	var rec func(x *T) bool
	rec = func(x *T) bool {
		if x.Op == Var {
			_, ok := set[x.Name]
			return ok
		}
		if x.Op == Const || seen[x] {
			return false
		}
		seen[x] = true
		for _, a := range x.Args {
			if rec(a) {
				return true
			}
		}
		return false
	}
	return rec(t)
}

// Consts collects (width, value) constants appearing in t, and variables.
func ConstsAndVars(t *T, consts map[uint64]bool, vars map[string]int) {
	seen := map[*T]bool{}
	var rec func(x *T)
	rec = func(x *T) {
		if seen[x] {
			return
		}
		seen[x] = true
		switch x.Op {
		case Const:
			if x.W > 0 {
				consts[x.Val] = true
			}
		case Var:
			vars[x.Name] = x.W
		}
		for _, a := range x.Args {
			rec(a)
		}
	}
	rec(t)
}
