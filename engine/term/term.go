// Package term implements SMT terms (Bool, BitVec, IEEE float64/32 as concrete
// constants only) with constant folding, an SMT-LIB2 printer with let-sharing, and an
// evaluator under a model.
package term

import (
	"fmt"
	"math/bits"
	"strings"
	"sync/atomic"
)

type Op uint8

const (
	Const Op = iota // BV constant (W>0) or Bool constant (W==0), value in Val
	Var             // Name
	Not
	And
	Or
	Eq
	Ite
	Add
	Sub
	Mul
	UDiv
	SDiv
	URem
	SRem
	BAnd
	BOr
	BXor
	BNot
	Neg
	Shl
	LShr
	AShr
	Ult
	Ule
	Slt
	Sle
	Extract // Hi, Lo
	Concat  // Args[0] high, Args[1] low
	ZExt    // to W
	SExt    // to W
)

var opName = map[Op]string{
	Not: "not", And: "and", Or: "or", Eq: "=", Ite: "ite", Add: "bvadd", Sub: "bvsub", Mul: "bvmul",
	UDiv: "bvudiv", SDiv: "bvsdiv", URem: "bvurem", SRem: "bvsrem", BAnd: "bvand", BOr: "bvor", BXor: "bvxor",
	BNot: "bvnot", Neg: "bvneg", Shl: "bvshl", LShr: "bvlshr", AShr: "bvashr", Ult: "bvult", Ule: "bvule",
	Slt: "bvslt", Sle: "bvsle", Concat: "concat",
}

// T is a term. W is the bit width; W == 0 means Bool.
type T struct {
	Op     Op
	W      int
	Val    uint64
	Name   string
	Args   []*T
	Hi, Lo int
	id     uint64
	size   int32 // approx DAG size (saturating)
}

var idCtr uint64

func mk(op Op, w int, args ...*T) *T {
	t := &T{Op: op, W: w, Args: args, id: atomic.AddUint64(&idCtr, 1)}
	sz := int32(1)
	for _, a := range args {
		if sz < 1<<28 {
			sz += a.size
		}
	}
	t.size = sz
	return t
}

func (t *T) ID() uint64    { return t.id }
func (t *T) IsConst() bool { return t.Op == Const }
func (t *T) IsBool() bool  { return t.W == 0 }
func (t *T) Size() int     { return int(t.size) }

func mask(w int) uint64 {
	if w >= 64 {
		return ^uint64(0)
	}
	return (uint64(1) << uint(w)) - 1
}

var (
	True  = &T{Op: Const, W: 0, Val: 1, size: 1}
	False = &T{Op: Const, W: 0, Val: 0, size: 1}
)

func Bool(b bool) *T {
	if b {
		return True
	}
	return False
}

// BV makes a constant of width w (1..64).
func BV(w int, v uint64) *T {
	if w <= 0 || w > 64 {
		panic(fmt.Sprintf("term.BV: bad width %d", w))
	}
	return &T{Op: Const, W: w, Val: v & mask(w), size: 1}
}

func NewVar(name string, w int) *T {
	t := mk(Var, w)
	t.Name = name
	return t
}

func (t *T) IsTrue() bool  { return t.Op == Const && t.W == 0 && t.Val == 1 }
func (t *T) IsFalse() bool { return t.Op == Const && t.W == 0 && t.Val == 0 }

// Signed returns the constant value sign-extended to int64.
func (t *T) Signed() int64 {
	return sext(t.Val, t.W)
}

func sext(v uint64, w int) int64 {
	if w >= 64 {
		return int64(v)
	}
	if v&(1<<uint(w-1)) != 0 {
		return int64(v | ^mask(w))
	}
	return int64(v)
}

// Same reports whether a and b are syntactically identical (pointer, or equal consts/vars).
func Same(a, b *T) bool {
	if a == b {
		return true
	}
	if a.Op != b.Op || a.W != b.W {
		return false
	}
	switch a.Op {
	case Const:
		return a.Val == b.Val
	case Var:
		return a.Name == b.Name
	}
	if a.size > 12 || a.size != b.size || len(a.Args) != len(b.Args) || a.Hi != b.Hi || a.Lo != b.Lo {
		return false
	}
	for i := range a.Args {
		if !Same(a.Args[i], b.Args[i]) {
			return false
		}
	}
	return true
}

func MkNot(a *T) *T {
	if a.Op == Const {
		return Bool(a.Val == 0)
	}
	if a.Op == Not {
		return a.Args[0]
	}
	return mk(Not, 0, a)
}

func MkAnd(a, b *T) *T {
	if a.Op == Const {
		if a.Val == 0 {
			return False
		}
		return b
	}
	if b.Op == Const {
		if b.Val == 0 {
			return False
		}
		return a
	}
	if a == b {
		return a
	}
	return mk(And, 0, a, b)
}

func MkOr(a, b *T) *T {
	if a.Op == Const {
		if a.Val == 1 {
			return True
		}
		return b
	}
	if b.Op == Const {
		if b.Val == 1 {
			return True
		}
		return a
	}
	if a == b {
		return a
	}
	return mk(Or, 0, a, b)
}

func MkImplies(a, b *T) *T { return MkOr(MkNot(a), b) }

func AndAll(ts ...*T) *T {
	r := True
	for _, t := range ts {
		r = MkAnd(r, t)
	}
	return r
}

func MkEq(a, b *T) *T {
	if a.W != b.W {
		panic(fmt.Sprintf("term.Eq: width mismatch %d vs %d", a.W, b.W))
	}
	if a.Op == Const && b.Op == Const {
		return Bool(a.Val == b.Val)
	}
	if Same(a, b) {
		return True
	}
	if a.W == 0 {
		// bool equality
		if a.Op == Const {
			if a.Val == 1 {
				return b
			}
			return MkNot(b)
		}
		if b.Op == Const {
			if b.Val == 1 {
				return a
			}
			return MkNot(a)
		}
	}
	// eq(ite(c,k1,k2), k) with constants
	if b.Op == Const && a.Op == Ite && a.Args[1].Op == Const && a.Args[2].Op == Const {
		t1 := a.Args[1].Val == b.Val
		t2 := a.Args[2].Val == b.Val
		switch {
		case t1 && t2:
			return True
		case t1:
			return a.Args[0]
		case t2:
			return MkNot(a.Args[0])
		default:
			return False
		}
	}
	if a.Op == Const && b.Op == Ite {
		return MkEq(b, a)
	}
	// eq(zext(x), const)
	if b.Op == Const && a.Op == ZExt {
		x := a.Args[0]
		if b.Val&^mask(x.W) != 0 {
			return False
		}
		return MkEq(x, BV(x.W, b.Val))
	}
	if a.Op == Const && b.Op == ZExt {
		return MkEq(b, a)
	}
	return mk(Eq, 0, a, b)
}

func MkIte(c, a, b *T) *T {
	if a.W != b.W {
		panic(fmt.Sprintf("term.Ite: width mismatch %d vs %d", a.W, b.W))
	}
	if c.Op == Const {
		if c.Val == 1 {
			return a
		}
		return b
	}
	if Same(a, b) {
		return a
	}
	if a.W == 0 {
		if a.Op == Const && b.Op == Const {
			if a.Val == 1 {
				return c
			}
			return MkNot(c)
		}
		if a.Op == Const {
			if a.Val == 1 {
				return MkOr(c, b)
			}
			return MkAnd(MkNot(c), b)
		}
		if b.Op == Const {
			if b.Val == 1 {
				return MkOr(MkNot(c), a)
			}
			return MkAnd(c, a)
		}
	}
	return mk(Ite, a.W, c, a, b)
}

func foldBin(op Op, w int, x, y uint64) (uint64, bool) {
	m := mask(w)
	switch op {
	case Add:
		return (x + y) & m, true
	case Sub:
		return (x - y) & m, true
	case Mul:
		return (x * y) & m, true
	case UDiv:
		if y == 0 {
			return m, true
		}
		return x / y, true
	case URem:
		if y == 0 {
			return x, true
		}
		return x % y, true
	case SDiv:
		sx, sy := sext(x, w), sext(y, w)
		if sy == 0 {
			if sx < 0 {
				return 1, true
			}
			return m, true
		}
		if sy == -1 {
			return uint64(-sx) & m, true
		}
		return uint64(sx/sy) & m, true
	case SRem:
		sx, sy := sext(x, w), sext(y, w)
		if sy == 0 {
			return x, true
		}
		if sy == -1 {
			return 0, true
		}
		return uint64(sx%sy) & m, true
	case BAnd:
		return x & y, true
	case BOr:
		return x | y, true
	case BXor:
		return x ^ y, true
	case Shl:
		if y >= uint64(w) {
			return 0, true
		}
		return (x << y) & m, true
	case LShr:
		if y >= uint64(w) {
			return 0, true
		}
		return x >> y, true
	case AShr:
		sx := sext(x, w)
		if y >= uint64(w) {
			y = uint64(w - 1)
		}
		return uint64(sx>>y) & m, true
	}
	return 0, false
}

func foldCmp(op Op, w int, x, y uint64) bool {
	switch op {
	case Ult:
		return x < y
	case Ule:
		return x <= y
	case Slt:
		return sext(x, w) < sext(y, w)
	case Sle:
		return sext(x, w) <= sext(y, w)
	}
	panic("foldCmp")
}

// MkBin builds a binary BV operation of the operands' width.
func MkBin(op Op, a, b *T) *T {
	if a.W != b.W || a.W == 0 {
		panic(fmt.Sprintf("term.Bin %v: width mismatch %d vs %d", opName[op], a.W, b.W))
	}
	w := a.W
	if a.Op == Const && b.Op == Const && w <= 64 {
		if v, ok := foldBin(op, w, a.Val, b.Val); ok {
			return BV(w, v)
		}
	}
	// identities
	switch op {
	case Add:
		if a.Op == Const && a.Val == 0 {
			return b
		}
		if b.Op == Const && b.Val == 0 {
			return a
		}
		// (x + c1) + c2
		if b.Op == Const && a.Op == Add && a.Args[1].Op == Const {
			return MkBin(Add, a.Args[0], BV(w, a.Args[1].Val+b.Val))
		}
	case Sub:
		if b.Op == Const && b.Val == 0 {
			return a
		}
		if Same(a, b) {
			return BV(w, 0)
		}
		if b.Op == Const && w <= 64 {
			return MkBin(Add, a, BV(w, -b.Val))
		}
	case Mul:
		if a.Op == Const {
			a, b = b, a
		}
		if b.Op == Const {
			if b.Val == 0 {
				return BV(w, 0)
			}
			if b.Val == 1 {
				return a
			}
		}
	case BAnd:
		if a.Op == Const {
			a, b = b, a
		}
		if b.Op == Const {
			if b.Val == 0 {
				return BV(w, 0)
			}
			if b.Val == mask(w) {
				return a
			}
			// and(zext(x), m) where m covers x fully
			if a.Op == ZExt && b.Val&mask(a.Args[0].W) == mask(a.Args[0].W) {
				return a
			}
		}
		if Same(a, b) {
			return a
		}
	case BOr:
		if a.Op == Const {
			a, b = b, a
		}
		if b.Op == Const {
			if b.Val == 0 {
				return a
			}
			if b.Val == mask(w) {
				return b
			}
		}
		if Same(a, b) {
			return a
		}
	case BXor:
		if a.Op == Const {
			a, b = b, a
		}
		if b.Op == Const && b.Val == 0 {
			return a
		}
		if Same(a, b) {
			return BV(w, 0)
		}
	case Shl, LShr, AShr:
		if b.Op == Const && b.Val == 0 {
			return a
		}
		if a.Op == Const && a.Val == 0 {
			return a
		}
		if b.Op == Const && b.Val >= uint64(w) && op != AShr {
			return BV(w, 0)
		}
		// lshr(zext(x), c) with c >= width(x) = 0
		if op == LShr && b.Op == Const && a.Op == ZExt && b.Val >= uint64(a.Args[0].W) {
			return BV(w, 0)
		}
	case UDiv:
		if b.Op == Const && b.Val == 1 {
			return a
		}
	}
	return mk(op, w, a, b)
}

// range of an unsigned term, cheap syntactic upper bound
func ubound(t *T) uint64 {
	switch t.Op {
	case Const:
		return t.Val
	case ZExt:
		return mask(t.Args[0].W)
	case BAnd:
		a, b := ubound(t.Args[0]), ubound(t.Args[1])
		if a < b {
			return a
		}
		return b
	case Ite:
		a, b := ubound(t.Args[1]), ubound(t.Args[2])
		if a > b {
			return a
		}
		return b
	case LShr:
		if t.Args[1].Op == Const && t.Args[1].Val < 64 {
			return ubound(t.Args[0]) >> t.Args[1].Val
		}
	}
	return mask(t.W)
}

func MkCmp(op Op, a, b *T) *T {
	if a.W != b.W || a.W == 0 {
		panic(fmt.Sprintf("term.Cmp %v: width mismatch %d vs %d", opName[op], a.W, b.W))
	}
	if a.Op == Const && b.Op == Const && a.W <= 64 {
		return Bool(foldCmp(op, a.W, a.Val, b.Val))
	}
	if Same(a, b) {
		return Bool(op == Ule || op == Sle)
	}
	switch op {
	case Ult:
		if b.Op == Const && b.Val == 0 {
			return False
		}
		if b.Op == Const && ubound(a) < b.Val {
			return True
		}
		if a.Op == Const && a.Val >= ubound(b) {
			return False
		}
	case Ule:
		if a.Op == Const && a.Val == 0 {
			return True
		}
		if b.Op == Const && ubound(a) <= b.Val {
			return True
		}
		if a.Op == Const && a.Val > ubound(b) {
			return False
		}
	case Slt, Sle:
		// signed compare of values known non-negative reduces to unsigned
		if a.W <= 64 {
			half := uint64(1) << uint(a.W-1)
			if ubound(a) < half && ubound(b) < half {
				if op == Slt {
					return MkCmp(Ult, a, b)
				}
				return MkCmp(Ule, a, b)
			}
		}
	}
	return mk(op, 0, a, b)
}

func MkBNot(a *T) *T {
	if a.Op == Const {
		return BV(a.W, ^a.Val)
	}
	if a.Op == BNot {
		return a.Args[0]
	}
	return mk(BNot, a.W, a)
}

func MkNeg(a *T) *T {
	if a.Op == Const {
		return BV(a.W, -a.Val)
	}
	return mk(Neg, a.W, a)
}

func MkExtract(hi, lo int, a *T) *T {
	if hi < lo || hi >= a.W {
		panic(fmt.Sprintf("term.Extract: bad range [%d:%d] of %d", hi, lo, a.W))
	}
	w := hi - lo + 1
	if w == a.W {
		return a
	}
	if a.Op == Const {
		return BV(w, a.Val>>uint(lo))
	}
	switch a.Op {
	case ZExt, SExt:
		x := a.Args[0]
		if hi < x.W {
			return MkExtract(hi, lo, x)
		}
		if a.Op == ZExt && lo >= x.W {
			return BV(w, 0)
		}
	case Concat:
		l := a.Args[1]
		if hi < l.W {
			return MkExtract(hi, lo, l)
		}
		if lo >= l.W {
			return MkExtract(hi-l.W, lo-l.W, a.Args[0])
		}
	case Extract:
		return MkExtract(hi+a.Lo, lo+a.Lo, a.Args[0])
	case Ite:
		if a.Args[1].Op == Const && a.Args[2].Op == Const {
			return MkIte(a.Args[0], MkExtract(hi, lo, a.Args[1]), MkExtract(hi, lo, a.Args[2]))
		}
	case BAnd, BOr, BXor:
		if lo == 0 && (a.Args[0].Op == ZExt || a.Args[1].Op == ZExt || a.Args[0].Op == Const || a.Args[1].Op == Const) {
			return MkBin(a.Op, MkExtract(hi, lo, a.Args[0]), MkExtract(hi, lo, a.Args[1]))
		}
	case Add, Sub, Mul:
		if lo == 0 && a.size < 64 {
			return MkBin(a.Op, MkExtract(hi, lo, a.Args[0]), MkExtract(hi, lo, a.Args[1]))
		}
	}
	t := mk(Extract, w, a)
	t.Hi, t.Lo = hi, lo
	return t
}

func MkConcat(hi, lo *T) *T {
	w := hi.W + lo.W
	if hi.Op == Const && lo.Op == Const && w <= 64 {
		return BV(w, hi.Val<<uint(lo.W)|lo.Val)
	}
	if hi.Op == Const && hi.Val == 0 {
		return MkZExt(w, lo)
	}
	return mk(Concat, w, hi, lo)
}

func MkZExt(w int, a *T) *T {
	if w == a.W {
		return a
	}
	if w < a.W {
		return MkExtract(w-1, 0, a)
	}
	if a.Op == Const {
		return BV(w, a.Val)
	}
	if a.Op == ZExt {
		return MkZExt(w, a.Args[0])
	}
	if a.Op == Ite && a.Args[1].Op == Const && a.Args[2].Op == Const {
		return MkIte(a.Args[0], MkZExt(w, a.Args[1]), MkZExt(w, a.Args[2]))
	}
	return mk(ZExt, w, a)
}

func MkSExt(w int, a *T) *T {
	if w == a.W {
		return a
	}
	if w < a.W {
		return MkExtract(w-1, 0, a)
	}
	if a.Op == Const {
		return BV(w, uint64(sext(a.Val, a.W)))
	}
	if a.Op == ZExt {
		// sign bit known zero
		return MkZExt(w, a.Args[0])
	}
	if a.W <= 64 && ubound(a) < uint64(1)<<uint(a.W-1) {
		return MkZExt(w, a)
	}
	if a.Op == Ite && a.Args[1].Op == Const && a.Args[2].Op == Const {
		return MkIte(a.Args[0], MkSExt(w, a.Args[1]), MkSExt(w, a.Args[2]))
	}
	return mk(SExt, w, a)
}

// ---------------------------------------------------------------- printing

func sortStr(w int) string {
	if w == 0 {
		return "Bool"
	}
	return fmt.Sprintf("(_ BitVec %d)", w)
}

func constStr(t *T) string {
	if t.W == 0 {
		if t.Val == 1 {
			return "true"
		}
		return "false"
	}
	if t.W%4 == 0 {
		return fmt.Sprintf("#x%0*x", t.W/4, t.Val)
	}
	return fmt.Sprintf("#b%0*b", t.W, t.Val)
}

// Vars collects the variables of t into m.
func Vars(t *T, m map[string]int, seen map[*T]bool) {
	if seen[t] {
		return
	}
	seen[t] = true
	if t.Op == Var {
		m[t.Name] = t.W
		return
	}
	for _, a := range t.Args {
		Vars(a, m, seen)
	}
}

// SMT prints t as an SMT-LIB2 expression with let-bindings for shared nodes.
func SMT(t *T) string {
	if t.Op == Const {
		return constStr(t)
	}
	if t.Op == Var {
		return t.Name
	}
	// count references
	refs := map[*T]int{}
	var order []*T
	var visit func(x *T)
	visit = func(x *T) {
		refs[x]++
		if refs[x] > 1 {
			return
		}
		for _, a := range x.Args {
			visit(a)
		}
		order = append(order, x) // post-order
	}
	visit(t)
	names := map[*T]string{}
	var sb strings.Builder
	var expr func(x *T) string
	expr = func(x *T) string {
		if n, ok := names[x]; ok {
			return n
		}
		switch x.Op {
		case Const:
			return constStr(x)
		case Var:
			return x.Name
		}
		var b strings.Builder
		switch x.Op {
		case Extract:
			fmt.Fprintf(&b, "((_ extract %d %d) %s)", x.Hi, x.Lo, expr(x.Args[0]))
		case ZExt:
			fmt.Fprintf(&b, "((_ zero_extend %d) %s)", x.W-x.Args[0].W, expr(x.Args[0]))
		case SExt:
			fmt.Fprintf(&b, "((_ sign_extend %d) %s)", x.W-x.Args[0].W, expr(x.Args[0]))
		default:
			b.WriteByte('(')
			b.WriteString(opName[x.Op])
			for _, a := range x.Args {
				b.WriteByte(' ')
				b.WriteString(expr(a))
			}
			b.WriteByte(')')
		}
		return b.String()
	}
	nlets := 0
	for _, x := range order {
		if x == t || refs[x] < 2 || x.Op == Const || x.Op == Var {
			continue
		}
		e := expr(x)
		n := fmt.Sprintf("?l%d", nlets)
		nlets++
		fmt.Fprintf(&sb, "(let ((%s %s)) ", n, e)
		names[x] = n
	}
	sb.WriteString(expr(t))
	for i := 0; i < nlets; i++ {
		sb.WriteByte(')')
	}
	return sb.String()
}

// ---------------------------------------------------------------- evaluation

// Eval evaluates t under model m (variable name -> value). ok is false if a variable is
// missing from the model.
func Eval(t *T, m map[string]uint64) (uint64, bool) {
	memo := map[*T]uint64{}
	okAll := true
	var ev func(x *T) uint64
	ev = func(x *T) uint64 {
		if !okAll {
			return 0
		}
		switch x.Op {
		case Const:
			return x.Val
		case Var:
			v, ok := m[x.Name]
			if !ok {
				okAll = false
				return 0
			}
			return v & maskB(x.W)
		}
		if v, ok := memo[x]; ok {
			return v
		}
		var r uint64
		switch x.Op {
		case Not:
			r = 1 ^ ev(x.Args[0])
		case And:
			r = ev(x.Args[0])
			if r == 1 {
				r = ev(x.Args[1])
			}
		case Or:
			r = ev(x.Args[0])
			if r == 0 {
				r = ev(x.Args[1])
			}
		case Eq:
			if ev(x.Args[0]) == ev(x.Args[1]) {
				r = 1
			}
		case Ite:
			if ev(x.Args[0]) == 1 {
				r = ev(x.Args[1])
			} else {
				r = ev(x.Args[2])
			}
		case Ult, Ule, Slt, Sle:
			if x.Args[0].W > 64 {
				okAll = false
				return 0
			}
			if foldCmp(x.Op, x.Args[0].W, ev(x.Args[0]), ev(x.Args[1])) {
				r = 1
			}
		case BNot:
			r = ^ev(x.Args[0]) & mask(x.W)
		case Neg:
			r = -ev(x.Args[0]) & mask(x.W)
		case Extract:
			if x.Args[0].W > 64 {
				okAll = false
				return 0
			}
			r = (ev(x.Args[0]) >> uint(x.Lo)) & mask(x.W)
		case Concat:
			if x.W > 64 {
				okAll = false
				return 0
			}
			r = ev(x.Args[0])<<uint(x.Args[1].W) | ev(x.Args[1])
		case ZExt:
			if x.W > 64 {
				okAll = false
				return 0
			}
			r = ev(x.Args[0])
		case SExt:
			if x.W > 64 {
				okAll = false
				return 0
			}
			r = uint64(sext(ev(x.Args[0]), x.Args[0].W)) & mask(x.W)
		default:
			if x.W > 64 {
				okAll = false
				return 0
			}
			v, ok := foldBin(x.Op, x.W, ev(x.Args[0]), ev(x.Args[1]))
			if !ok {
				panic("term.Eval: unhandled op " + opName[x.Op])
			}
			r = v
		}
		memo[x] = r
		return r
	}
	v := ev(t)
	return v, okAll
}

func maskB(w int) uint64 {
	if w == 0 {
		return 1
	}
	return mask(w)
}

// PopCount etc. helpers for intrinsics.
func Len64(v uint64) int { return bits.Len64(v) }
