// Command check runs one property check: it loads the package under test from /repo's
// working tree as go/ssa (with the harness injected by overlay), validates the VM against
// the native build on concrete vectors, explores the harness symbolically, replays
// counterexamples natively and writes the evidence file.
package main

import (
	"encoding/json"
	"flag"
	"fmt"
	"math/rand"
	"os"
	"os/exec"
	"path/filepath"
	"regexp"
	"runtime"
	"runtime/pprof"
	"sort"
	"strconv"
	"strings"
	"time"

	"golang.org/x/tools/go/packages"
	"golang.org/x/tools/go/ssa"
	"golang.org/x/tools/go/ssa/ssautil"

	"symgo/vm"
)

// repoDir is /repo. VERIF_REPO_OVERRIDE points the check at a scratch copy of the tree; it
// is used only by tools/detect_all.sh to try seeded changes without touching /repo and is
// never set by a registered command.
var repoDir = func() string {
	if d := os.Getenv("VERIF_REPO_OVERRIDE"); d != "" {
		return d
	}
	return "/repo"
}()

const (
	verifDir  = "/verif"
	modPath   = "github.com/bufbuild/protocompile"
	apiRel    = "internal/zzverif"
)

// reachedInEarlierPart: reach labels satisfied by an earlier part of the same check (parts may
// share harness files; a witness belongs to the part whose entry reaches it).
var reachedInEarlierPart = map[string]int{}

type CheckSpec struct {
	Pkg         string            `json:"pkg"`   // repo-relative package dir, e.g. "linker"
	Files       []string          `json:"files"` // harness files under /verif/harness/<pkg>/
	ExtraFiles  map[string]string `json:"extra_files"` // repo-relative target -> /verif/harness-relative source (other packages)
	Entries     []string          `json:"entries"`
	Replace     map[string]string `json:"replace"` // full SSA function name -> harness function (in Pkg)
	AllowStatus []string          `json:"allow_status"`
	Tags        string            `json:"tags"`
	Bounds      map[string]string `json:"bounds"`
	Assumptions []string          `json:"assumptions"`
	Outside     []string          `json:"outside"`
	Stubs       []string          `json:"stubs"`
	TimeoutS    map[string]int    `json:"timeout_s"`
	MaxSteps    int               `json:"max_steps"`
	Vectors     int               `json:"vectors"`
	VecLen      int               `json:"vec_len"`
	SolverMs    int               `json:"solver_ms"`
	NoNative    bool              `json:"no_native"`
	ExpectFail  bool              `json:"expect_fail"` // self-test harnesses
	Parts       []CheckPart       `json:"parts"`       // optional: several packages
}

type CheckPart struct {
	Pkg        string            `json:"pkg"`
	Files      []string          `json:"files"`
	ExtraFiles map[string]string `json:"extra_files"`
	Entries    []string          `json:"entries"`
	Replace    map[string]string `json:"replace"`
	Tags       string            `json:"tags"`
	NoNative   bool              `json:"no_native"`
}

type KnownFinding struct {
	Property string `json:"property"`
	Class    string `json:"class"`
	Status   string `json:"status"` // open | fixed
	Commit   string `json:"commit,omitempty"`
	What     string `json:"what"`
}

type Replay struct {
	Property string            `json:"property"`
	Harness  string            `json:"harness"`
	Tier     string            `json:"tier"`
	Label    string            `json:"assertion"`
	Known    string            `json:"known_class,omitempty"`
	Vec      []uint64          `json:"vec"`
	Inputs   []vm.Input        `json:"inputs"`
	Model    map[string]uint64 `json:"model"`
	Detail   string            `json:"detail,omitempty"`
}

func fatal(format string, a ...interface{}) {
	fmt.Fprintf(os.Stderr, "check: "+format+"\n", a...)
	os.Exit(2)
}

func cleanEnv() []string {
	var env []string
	for _, e := range os.Environ() {
		if strings.HasPrefix(e, "GOFLAGS=") || strings.HasPrefix(e, "GOSUMDB=") || strings.HasPrefix(e, "GOTOOLCHAIN=") || strings.HasPrefix(e, "GOPROXY=") || strings.HasPrefix(e, "GOWORK=") {
			continue
		}
		env = append(env, e)
	}
	env = append(env, "GOPROXY=off")
	return env
}

func main() {
	tier := flag.String("tier", os.Getenv("VERIF_TIER"), "quick|thorough")
	replay := flag.String("replay", "", "replay file")
	workers := flag.Int("workers", runtime.NumCPU(), "workers")
	onlyEntry := flag.String("entry", "", "run only this entry")
	debug := flag.Bool("debug", false, "debug output")
	noEvidence := flag.Bool("no-evidence", false, "do not write the evidence file")
	maxPaths := flag.Int("max-paths", 0, "stop after n paths (debug)")
	// allow the id anywhere among the flags
	var id string
	var rest []string
	for _, a := range os.Args[1:] {
		if id == "" && !strings.HasPrefix(a, "-") && regexp.MustCompile(`^[A-Z][A-Za-z0-9_]*$`).MatchString(a) {
			id = a
			continue
		}
		rest = append(rest, a)
	}
	flag.CommandLine.Parse(rest)
	if id == "" {
		fatal("usage: check <id> [--tier quick|thorough]")
	}
	if pf := os.Getenv("SYMGO_CPUPROFILE"); pf != "" {
		f, _ := os.Create(pf)
		pprof.StartCPUProfile(f)
		defer pprof.StopCPUProfile()
	}
	if *tier == "" {
		*tier = "quick"
	}
	seed := int64(1)
	if s := os.Getenv("VERIF_SEED"); s != "" {
		if v, err := strconv.ParseInt(s, 10, 64); err == nil {
			seed = v
		}
	}
	start := time.Now()

	var specs map[string]*CheckSpec
	data, err := os.ReadFile(filepath.Join(verifDir, "checks.json"))
	if err != nil {
		fatal("%v", err)
	}
	if err := json.Unmarshal(data, &specs); err != nil {
		fatal("checks.json: %v", err)
	}
	spec, ok := specs[id]
	if !ok {
		fatal("no such check %q", id)
	}
	var known []KnownFinding
	if data, err := os.ReadFile(filepath.Join(verifDir, "known_findings.json")); err == nil {
		if err := json.Unmarshal(data, &known); err != nil {
			fatal("known_findings.json: %v", err)
		}
	}

	// the top-level package/entries (if any) form the first part, "parts" add further ones
	var parts []CheckPart
	if len(spec.Entries) > 0 {
		parts = append(parts, CheckPart{Pkg: spec.Pkg, Files: spec.Files, ExtraFiles: spec.ExtraFiles, Entries: spec.Entries, Replace: spec.Replace, Tags: spec.Tags})
	}
	parts = append(parts, spec.Parts...)
	var agg *runner
	code := 0
	for _, part := range parts {
		sp := *spec
		sp.Pkg, sp.Files, sp.ExtraFiles, sp.Entries, sp.Replace = part.Pkg, part.Files, part.ExtraFiles, part.Entries, part.Replace
		if part.Tags != "" {
			sp.Tags = part.Tags
		}
		sp.NoNative = spec.NoNative || part.NoNative
		r := &runner{id: id, spec: &sp, tier: *tier, seed: seed, workers: *workers, debug: *debug, known: known, maxPaths: *maxPaths}
		r.scratch, err = os.MkdirTemp("", "verif-"+id+"-")
		if err != nil {
			fatal("%v", err)
		}
		r.buildOverlay()
		if *replay != "" {
			data, err := os.ReadFile(*replay)
			if err != nil {
				fatal("%v", err)
			}
			var rep Replay
			json.Unmarshal(data, &rep)
			found := false
			for _, e := range sp.Entries {
				if e == rep.Harness {
					found = true
				}
			}
			if !found {
				os.RemoveAll(r.scratch)
				continue
			}
			c := r.doReplay(*replay)
			os.RemoveAll(r.scratch)
			os.Exit(c)
		}
		r.load()
		entries := sp.Entries
		if *onlyEntry != "" {
			entries = nil
			for _, e := range sp.Entries {
				if e == *onlyEntry {
					entries = []string{e}
				}
			}
			if entries == nil {
				os.RemoveAll(r.scratch)
				continue
			}
		}
		c := r.runAll(entries)
		os.RemoveAll(r.scratch)
		if c == 1 || (c == 2 && code == 0) {
			code = c
		}
		if agg == nil {
			agg = r
		} else {
			agg.merge(r)
		}
		r.prog, r.pkg = nil, nil
	}
	if agg == nil {
		fatal("nothing to run")
	}
	r := agg
	r.wall = time.Since(start)
	if !*noEvidence {
		r.writeEvidence()
	}
	fmt.Printf("check %s tier=%s: paths=%d steps=%d queries=%d solver=%.1fs wall=%.1fs exit=%d\n", id, *tier, r.totalPaths, r.totalSteps, r.totalQueries, r.solverTime.Seconds(), r.wall.Seconds(), code)
	pprof.StopCPUProfile()
	os.Exit(code)
}

func (r *runner) merge(o *runner) {
	r.totalPaths += o.totalPaths
	r.totalQueries += o.totalQueries
	r.totalSteps += o.totalSteps
	r.solverTime += o.solverTime
	r.qSat += o.qSat
	r.qUnsat += o.qUnsat
	r.qUnknown += o.qUnknown
	for k, v := range o.pathStatus {
		r.pathStatus[k] += v
	}
	for k, v := range o.fnEncoded {
		r.fnEncoded[k] += v
		r.fnInstrs[k] = o.fnInstrs[k]
	}
	r.samples = append(r.samples, o.samples...)
	r.validated += o.validated
	r.violations += o.violations
	r.knownHits = append(r.knownHits, o.knownHits...)
	r.inconclusive = append(r.inconclusive, o.inconclusive...)
	for k, v := range o.reachLabels {
		r.reachLabels[k] += v
	}
	r.assertsChecked += o.assertsChecked
	r.trivialAsserts += o.trivialAsserts
	r.branches += o.branches
	r.perEntry = append(r.perEntry, o.perEntry...)
	r.loadTime += o.loadTime
}

type runner struct {
	id       string
	spec     *CheckSpec
	tier     string
	seed     int64
	workers  int
	debug    bool
	known    []KnownFinding
	scratch  string
	overlay  map[string]string // virtual (in /repo) -> real
	prog     *ssa.Program
	pkg      *ssa.Package
	pkgName  string
	loadTime time.Duration
	wall     time.Duration
	maxPaths int

	// aggregated results
	totalPaths, totalQueries      int
	totalSteps                    int64
	solverTime                    time.Duration
	qSat, qUnsat, qUnknown        int
	pathStatus                    map[string]int
	fnEncoded                     map[string]int
	fnInstrs                      map[string]int
	samples                       []interface{}
	validated                     int
	violations                    int
	knownHits                     []string
	inconclusive                  []string
	reachLabels                   map[string]int
	assertsChecked, trivialAsserts int64
	branches                      int64
	perEntry                      []map[string]interface{}
	nativeViol                    map[string]bool
	nativeFailed                  bool
}

func (r *runner) tierNum() int {
	if r.tier == "thorough" {
		return 1
	}
	return 0
}

func (r *runner) buildOverlay() {
	r.overlay = map[string]string{}
	r.overlay[filepath.Join(repoDir, apiRel, "verif.go")] = filepath.Join(verifDir, "harness", "zzverif", "verif.go")
	for _, f := range r.spec.Files {
		r.overlay[filepath.Join(repoDir, r.spec.Pkg, f)] = filepath.Join(verifDir, "harness", r.spec.Pkg, f)
	}
	for target, src := range r.spec.ExtraFiles {
		r.overlay[filepath.Join(repoDir, target)] = filepath.Join(verifDir, "harness", src)
	}
}

func (r *runner) tags() string {
	t := "verif"
	if r.spec.Tags != "" {
		t += "," + r.spec.Tags
	}
	return t
}

func (r *runner) load() {
	t0 := time.Now()
	ov := map[string][]byte{}
	for virt, real := range r.overlay {
		b, err := os.ReadFile(real)
		if err != nil {
			fatal("overlay: %v", err)
		}
		ov[virt] = b
	}
	cfg := &packages.Config{
		Mode:       packages.LoadAllSyntax,
		Dir:        repoDir,
		Env:        cleanEnv(),
		Overlay:    ov,
		BuildFlags: []string{"-tags=" + r.tags()},
	}
	pkgs, err := packages.Load(cfg, "./"+r.spec.Pkg)
	if err != nil {
		fatal("load: %v", err)
	}
	nerr := 0
	packages.Visit(pkgs, nil, func(p *packages.Package) {
		for _, e := range p.Errors {
			if nerr < 20 {
				fmt.Fprintf(os.Stderr, "load error: %v\n", e)
			}
			nerr++
		}
	})
	if nerr > 0 {
		fmt.Printf("INCONCLUSIVE property=%s: /repo does not type-check with the harness (%d errors)\n", r.id, nerr)
		os.Exit(2)
	}
	prog, spkgs := ssautil.AllPackages(pkgs, ssa.InstantiateGenerics)
	prog.Build()
	r.prog = prog
	r.pkg = spkgs[0]
	r.pkgName = pkgs[0].Name
	r.loadTime = time.Since(t0)
	if r.debug {
		fmt.Fprintf(os.Stderr, "loaded %s in %.1fs\n", pkgs[0].PkgPath, r.loadTime.Seconds())
	}
}

func (r *runner) newExplorer(entry string) *vm.Explorer {
	fn := r.pkg.Func(entry)
	if fn == nil {
		fatal("entry %s not found in %s", entry, r.pkg.Pkg.Path())
	}
	steps := r.spec.MaxSteps
	if steps == 0 {
		steps = 3000000
	}
	solverMs := r.spec.SolverMs
	if solverMs == 0 {
		solverMs = 30000
	}
	cfg := &vm.Config{MaxSteps: steps, MaxDepth: 400, TimeoutMs: solverMs, Solver: "z3", Tier: r.tierNum()}
	if s := os.Getenv("SYMGO_SOLVER"); s != "" {
		cfg.Solver = s
	}
	ex := &vm.Explorer{Prog: r.prog, Entry: fn, Cfg: cfg, APIPath: modPath + "/" + apiRel, NWorkers: r.workers, Replace: map[string]*ssa.Function{}, AllowStatus: map[string]bool{}, MaxPaths: r.maxPaths}
	for name, h := range r.spec.Replace {
		hf := r.pkg.Func(h)
		if hf == nil {
			fatal("replacement %s not found", h)
		}
		ex.Replace[name] = hf
	}
	for _, s := range r.spec.AllowStatus {
		ex.AllowStatus[s] = true
	}
	to := 600
	if r.tier == "thorough" {
		to = 3600
	}
	if v, ok := r.spec.TimeoutS[r.tier]; ok {
		to = v
	}
	ex.Deadline = time.Now().Add(time.Duration(to) * time.Second)
	return ex
}

// ---------------------------------------------------------------- native runs

type nativeJob struct {
	Harness string   `json:"harness"`
	Vec     []uint64 `json:"vec"`
}

func (r *runner) runNative(jobs []nativeJob) ([]vm.ConcreteResult, error) {
	// test file registering the entries
	var sb strings.Builder
	fmt.Fprintf(&sb, "//go:build verif\n\npackage %s\n\nimport (\n\t\"testing\"\n\tzz \"%s/%s\"\n)\n\nfunc TestZZVerifNative(t *testing.T) {\n\tif err := zz.RunNative(map[string]func(){\n", r.pkgNameOrGuess(), modPath, apiRel)
	for _, e := range r.spec.Entries {
		fmt.Fprintf(&sb, "\t\t%q: %s,\n", e, e)
	}
	sb.WriteString("\t}); err != nil {\n\t\tt.Fatal(err)\n\t}\n}\n")
	testFile := filepath.Join(r.scratch, "zz_verif_native_test.go")
	if err := os.WriteFile(testFile, []byte(sb.String()), 0o644); err != nil {
		return nil, err
	}
	ov := map[string]map[string]string{"Replace": {}}
	for k, v := range r.overlay {
		ov["Replace"][k] = v
	}
	ov["Replace"][filepath.Join(repoDir, r.spec.Pkg, "zz_verif_native_test.go")] = testFile
	ovData, _ := json.Marshal(ov)
	ovFile := filepath.Join(r.scratch, "overlay.json")
	os.WriteFile(ovFile, ovData, 0o644)
	inFile := filepath.Join(r.scratch, "in.json")
	outFile := filepath.Join(r.scratch, "out.json")
	os.Remove(outFile)
	jd, _ := json.Marshal(jobs)
	os.WriteFile(inFile, jd, 0o644)
	cmd := exec.Command("go", "test", "-vet=off", "-count=1", "-tags="+r.tags(), "-overlay="+ovFile, "-run", "^TestZZVerifNative$", "-timeout", "20m", "./"+r.spec.Pkg)
	cmd.Dir = repoDir
	cmd.Env = append(cleanEnv(), "ZZVERIF_IN="+inFile, "ZZVERIF_OUT="+outFile, "ZZVERIF_TIER="+strconv.Itoa(r.tierNum()))
	out, err := cmd.CombinedOutput()
	data, rerr := os.ReadFile(outFile)
	if rerr != nil {
		return nil, fmt.Errorf("native run failed: %v\n%s", err, tail(string(out), 3000))
	}
	var res []vm.ConcreteResult
	if err := json.Unmarshal(data, &res); err != nil {
		return nil, err
	}
	return res, nil
}

func (r *runner) pkgNameOrGuess() string {
	if r.pkgName != "" {
		return r.pkgName
	}
	// replay mode without loading: read the package clause of the first harness file
	b, err := os.ReadFile(filepath.Join(verifDir, "harness", r.spec.Pkg, r.spec.Files[0]))
	if err == nil {
		if m := regexp.MustCompile(`(?m)^package\s+(\w+)`).FindSubmatch(b); m != nil {
			return string(m[1])
		}
	}
	return filepath.Base(r.spec.Pkg)
}

func tail(s string, n int) string {
	if len(s) > n {
		return s[len(s)-n:]
	}
	return s
}

func sameResult(a, b vm.ConcreteResult) bool {
	norm := func(s string) string {
		switch s {
		case "ok", "assume", "panic":
			return s
		case "assert-false":
			return "ok"
		}
		return s
	}
	if norm(a.Status) != norm(b.Status) {
		return false
	}
	if a.Status == "panic" || a.Status == "assume" {
		return true
	}
	if strings.Join(dedup(a.Failures), "|") != strings.Join(dedup(b.Failures), "|") {
		return false
	}
	if len(a.Obs) != len(b.Obs) {
		return false
	}
	for i := range a.Obs {
		if a.Obs[i] != b.Obs[i] {
			return false
		}
	}
	return true
}

func dedup(s []string) []string {
	m := map[string]bool{}
	var out []string
	for _, x := range s {
		if !m[x] {
			m[x] = true
			out = append(out, x)
		}
	}
	sort.Strings(out)
	return out
}

func (r *runner) genVectors(n, length int) [][]uint64 {
	rng := rand.New(rand.NewSource(r.seed))
	vecs := make([][]uint64, n)
	interesting := []uint64{0, 1, 2, 3, 4, 5, 7, 8, 9, 10, 13, 0x20, 0x22, 0x27, 0x2e, 0x2f, 0x30, 0x31, 0x37, 0x38, 0x39, 0x41, 0x5a, 0x5c, 0x5f, 0x61, 0x66, 0x6e, 0x78, 0x7a, 0x7e, 0x7f, 0x80, 0xbf, 0xc2, 0xc3, 0xe0, 0xed, 0xef, 0xf0, 0xf4, 0xff, 0x7fffffff, 0x80000000, 0xffffffff, 1 << 63, ^uint64(0)}
	for i := range vecs {
		v := make([]uint64, length)
		mode := rng.Intn(4)
		for j := range v {
			switch {
			case mode == 0:
				v[j] = uint64(rng.Intn(4))
			case mode == 1 || rng.Intn(3) == 0:
				v[j] = interesting[rng.Intn(len(interesting))]
			case mode == 2:
				v[j] = uint64(rng.Intn(256))
			default:
				v[j] = rng.Uint64()
			}
		}
		vecs[i] = v
	}
	return vecs
}

// crossValidate runs concrete vectors through the VM and natively and compares.
func (r *runner) crossValidate(entries []string) bool {
	if r.spec.NoNative {
		return true
	}
	nvec := r.spec.Vectors
	if nvec == 0 {
		nvec = 24
	}
	vlen := r.spec.VecLen
	if vlen == 0 {
		vlen = 48
	}
	var jobs []nativeJob
	for _, e := range entries {
		for _, v := range r.genVectors(nvec, vlen) {
			jobs = append(jobs, nativeJob{Harness: e, Vec: v})
		}
	}
	nat, err := r.runNative(jobs)
	if err != nil {
		r.inconclusive = append(r.inconclusive, "native cross-validation run failed: "+err.Error())
		return false
	}
	okAll := true
	var ex *vm.Explorer
	var w *vm.Worker
	cur := ""
	mism := 0
	for i, j := range jobs {
		if j.Harness != cur {
			ex = r.newExplorer(j.Harness)
			w = ex.NewConcreteWorker()
			cur = j.Harness
		}
		got := ex.RunConcrete(w, j.Vec)
		if (len(nat[i].Failures) > 0 || nat[i].Status == "panic") && len(nat[i].Known) == 0 && !r.spec.ExpectFail {
			// the real build itself violates an assertion on this concrete vector: that is a
			// reproduced violation whatever the VM says (e.g. effects the VM does not model,
			// such as a string aliasing a mutable buffer)
			label := "native-run: " + strings.Join(dedup(nat[i].Failures), ",")
			if nat[i].Status == "panic" {
				label = "native-run: panic " + nat[i].Detail
			}
			if !r.nativeViol[label] {
				if r.nativeViol == nil {
					r.nativeViol = map[string]bool{}
				}
				r.nativeViol[label] = true
				os.MkdirAll(filepath.Join(verifDir, "replays", r.id), 0o755)
				path := filepath.Join(verifDir, "replays", r.id, sanitize(label)+".json")
				rd, _ := json.MarshalIndent(Replay{Property: r.id, Harness: j.Harness, Tier: r.tier, Label: label, Vec: j.Vec, Detail: "found by the native half of the cross-validation"}, "", " ")
				os.WriteFile(path, rd, 0o644)
				fmt.Printf("VIOLATION property=%s replay=%s\n  %s\n  harness: %s (concrete cross-validation vector, native build)\n", r.id, path, label, j.Harness)
				r.violations++
				r.nativeFailed = true
			}
		}
		if !sameResult(got, nat[i]) {
			okAll = false
			mism++
			if mism <= 3 {
				g, _ := json.Marshal(got)
				n, _ := json.Marshal(nat[i])
				r.inconclusive = append(r.inconclusive, fmt.Sprintf("VM/native mismatch on %s vec=%v: vm=%s native=%s", j.Harness, j.Vec, g, n))
			}
		} else {
			r.validated++
		}
	}
	return okAll
}

// ---------------------------------------------------------------- main loop

func (r *runner) knownStatus(class string) string {
	for _, k := range r.known {
		if k.Property == r.id && k.Class == class {
			return k.Status
		}
	}
	return ""
}

func (r *runner) knownWhat(class string) string {
	for _, k := range r.known {
		if k.Property == r.id && k.Class == class {
			return k.What
		}
	}
	return ""
}

func vecOf(f vm.Failure) []uint64 {
	v := make([]uint64, len(f.Inputs))
	for i, in := range f.Inputs {
		v[i] = f.Model[in.Name]
	}
	return v
}

func (r *runner) runAll(entries []string) int {
	r.pathStatus = map[string]int{}
	r.fnEncoded = map[string]int{}
	r.fnInstrs = map[string]int{}
	r.reachLabels = map[string]int{}
	exit := 0
	if !r.crossValidate(entries) {
		exit = 2
	}
	if r.nativeFailed {
		exit = 1
	}
	type pending struct {
		entry string
		f     vm.Failure
	}
	var fails []pending
	for _, e := range entries {
		t0 := time.Now()
		ex := r.newExplorer(e)
		ex.Run()
		npaths := 0
		for s, n := range ex.Paths {
			r.pathStatus[s] += n
			npaths += n
		}
		r.totalPaths += npaths
		r.totalSteps += ex.Steps
		r.totalQueries += ex.SolverQueries
		r.qSat += ex.SolverSat
		r.qUnsat += ex.SolverUnsat
		r.qUnknown += ex.SolverUnknown
		r.solverTime += ex.SolverTime
		r.assertsChecked += ex.AssertsChecked
		r.trivialAsserts += ex.TrivialAsserts
		r.branches += ex.Branches
		for fn, n := range ex.FnCount {
			r.fnEncoded[fn] += n
			r.fnInstrs[fn] = ex.FnInstrs[fn]
		}
		for l, n := range ex.Reached {
			r.reachLabels[l] += n
			reachedInEarlierPart[l] += n
		}
		for _, s := range ex.Samples {
			if len(r.samples) < 8 {
				r.samples = append(r.samples, map[string]interface{}{"harness": e, "path": s})
			}
		}
		for _, f := range ex.Failures {
			fails = append(fails, pending{e, f})
		}
		for _, m := range ex.Inconclusive {
			r.inconclusive = append(r.inconclusive, e+": "+m)
		}
		// non-ok path endings make the run inconclusive
		for s, n := range ex.Paths {
			switch s {
			case "ok", "assume", "assert-false", "panic", "infeasible":
			case "blocked", "fatal", "exit", "goexit":
			default:
				r.inconclusive = append(r.inconclusive, fmt.Sprintf("%s: %d path(s) ended with status %s", e, n, s))
			}
		}
		for d, n := range ex.PathDetails {
			if r.debug || !(strings.HasPrefix(d, "panic") || strings.HasPrefix(d, "assert-false")) {
				fmt.Fprintf(os.Stderr, "  [%s] %d× %s\n", e, n, d)
			}
		}
		if ex.TimedOut {
			r.inconclusive = append(r.inconclusive, e+": exploration stopped before completion (time/path budget)")
		}
		if ex.Paths["ok"] == 0 {
			r.inconclusive = append(r.inconclusive, e+": no path completed normally (vacuous)")
		}
		r.perEntry = append(r.perEntry, map[string]interface{}{
			"harness": e, "paths": npaths, "paths_by_status": ex.Paths, "ssa_steps": ex.Steps, "branches_decided": ex.Branches,
			"assertions_checked_by_solver": ex.AssertsChecked, "assertions_constant_true": ex.TrivialAsserts,
			"solver_queries": ex.SolverQueries, "solver_s": round(ex.SolverTime.Seconds()), "wall_s": round(time.Since(t0).Seconds()),
			"unknown_branch_queries": ex.UnknownBranches,
		})
		if r.debug {
			fmt.Fprintf(os.Stderr, "%s: paths=%v steps=%d queries=%d (%.1fs solver) wall=%.1fs\n", e, ex.Paths, ex.Steps, ex.SolverQueries, ex.SolverTime.Seconds(), time.Since(t0).Seconds())
		}
	}
	// vacuity: every Reach label in the harness sources must have been reached
	for _, l := range r.harnessReachLabels(entries) {
		if r.reachLabels[l] == 0 && reachedInEarlierPart[l] == 0 {
			r.inconclusive = append(r.inconclusive, "reachability witness not reached: "+l)
		}
	}
	if r.assertsChecked+r.trivialAsserts == 0 {
		r.inconclusive = append(r.inconclusive, "no assertion was evaluated (vacuous)")
	}
	// replay failures natively
	if len(fails) > 0 {
		var jobs []nativeJob
		for _, p := range fails {
			jobs = append(jobs, nativeJob{Harness: p.entry, Vec: vecOf(p.f)})
		}
		var nat []vm.ConcreteResult
		var err error
		if !r.spec.NoNative {
			nat, err = r.runNative(jobs)
			if err != nil {
				r.inconclusive = append(r.inconclusive, "native replay failed: "+err.Error())
			}
		}
		os.MkdirAll(filepath.Join(verifDir, "replays", r.id), 0o755)
		for i, p := range fails {
			f := p.f
			rep := Replay{Property: r.id, Harness: p.entry, Tier: r.tier, Label: f.Label, Known: f.Known, Vec: vecOf(f), Inputs: f.Inputs, Model: f.Model, Detail: f.Detail}
			confirmed := r.spec.NoNative
			if f.VMOnly {
				// lock-set facts are properties of the executed path, not of observable output:
				// they cannot be replayed natively (the race detector is the native analogue)
				confirmed = true
				rep.Detail += " [fact about the executed path (lock set / goroutine schedule chosen by the VM); not natively replayable]"
			}
			if nat != nil && !f.VMOnly {
				n := nat[i]
				isPanic := strings.HasPrefix(f.Label, "uncaught ") || strings.HasPrefix(f.Label, "blocked") || strings.HasPrefix(f.Label, "fatal")
				if isPanic {
					confirmed = n.Status == "panic"
				} else {
					for _, l := range n.Failures {
						if l == f.Label {
							confirmed = true
						}
					}
				}
				// known-class membership must agree natively too
				if confirmed && f.Known != "" {
					in := false
					for _, k := range n.Known {
						if k == f.Known {
							in = true
						}
					}
					if !in {
						confirmed = false
					}
				}
				if !confirmed {
					nj, _ := json.Marshal(n)
					r.inconclusive = append(r.inconclusive, fmt.Sprintf("counterexample for %q (class %q) did not reproduce natively: vec=%v native=%s", f.Label, f.Known, rep.Vec, nj))
					continue
				}
			}
			name := sanitize(f.Label)
			if f.Known != "" {
				name += "__" + sanitize(f.Known)
			}
			path := filepath.Join(verifDir, "replays", r.id, name+".json")
			rd, _ := json.MarshalIndent(rep, "", " ")
			os.WriteFile(path, rd, 0o644)
			r.validated++
			status := ""
			if f.Known != "" {
				status = r.knownStatus(f.Known)
			}
			switch {
			case f.Known != "" && status == "open":
				line := fmt.Sprintf("KNOWN-FINDING: property=%s %s [%s] (assertion %s; replay %s)", r.id, r.knownWhat(f.Known), f.Known, f.Label, path)
				fmt.Println(line)
				r.knownHits = append(r.knownHits, f.Known+": "+f.Label)
			default:
				if r.spec.ExpectFail {
					fmt.Printf("expected-failure (self-test): %s vec=%v\n", f.Label, rep.Vec)
					r.violations++
					continue
				}
				fmt.Printf("VIOLATION property=%s replay=%s\n", r.id, path)
				fmt.Printf("  assertion: %s %s\n  harness: %s\n  inputs: %v\n", f.Label, f.Detail, p.entry, rep.Vec)
				if f.Known != "" {
					fmt.Printf("  (matches class %q which is recorded as %q in known_findings.json)\n", f.Known, status)
				}
				r.violations++
				exit = 1
			}
		}
	}
	if r.spec.ExpectFail {
		if r.violations == 0 {
			fmt.Printf("INCONCLUSIVE property=%s: self-test expected a counterexample but none was found\n", r.id)
			return 2
		}
		return 0
	}
	if len(r.inconclusive) > 0 && exit == 0 {
		exit = 2
	}
	if exit == 2 {
		fmt.Printf("INCONCLUSIVE property=%s (no verdict):\n", r.id)
		for _, m := range r.inconclusive {
			if len(m) > 1500 {
				m = m[:1500] + "..."
			}
			fmt.Println("  - " + m)
		}
	}
	return exit
}

func sanitize(s string) string {
	s = regexp.MustCompile(`[^A-Za-z0-9_.-]+`).ReplaceAllString(s, "_")
	if len(s) > 80 {
		s = s[:80]
	}
	return s
}

func round(f float64) float64 { return float64(int(f*100)) / 100 }

func (r *runner) harnessReachLabels(entries []string) []string {
	// Reach labels are attributed to entries by prefix "<Entry>/" or, when absent, global.
	var labels []string
	re := regexp.MustCompile(`zz\.Reach\("([^"]+)"\)`)
	for _, f := range r.spec.Files {
		b, err := os.ReadFile(filepath.Join(verifDir, "harness", r.spec.Pkg, f))
		if err != nil {
			continue
		}
		for _, m := range re.FindAllSubmatch(b, -1) {
			if strings.HasPrefix(string(m[1]), r.id+"/") {
				labels = append(labels, string(m[1]))
			}
		}
	}
	if len(entries) != len(r.spec.Entries) {
		return nil // partial run
	}
	return labels
}

func (r *runner) doReplay(path string) int {
	data, err := os.ReadFile(path)
	if err != nil {
		fatal("%v", err)
	}
	var rep Replay
	if err := json.Unmarshal(data, &rep); err != nil {
		fatal("%v", err)
	}
	if rep.Tier != "" {
		r.tier = rep.Tier
	}
	nat, err := r.runNative([]nativeJob{{Harness: rep.Harness, Vec: rep.Vec}})
	if err != nil {
		fatal("%v", err)
	}
	out, _ := json.MarshalIndent(nat[0], "", " ")
	fmt.Printf("native replay of %s (%s):\n%s\n", path, rep.Label, out)
	failed := nat[0].Status == "panic" || len(nat[0].Failures) > 0
	if failed {
		fmt.Printf("VIOLATION property=%s replay=%s\n", r.id, path)
		return 1
	}
	return 0
}

func (r *runner) writeEvidence() {
	type fnRow struct {
		Fn     string `json:"fn"`
		Calls  int    `json:"calls"`
		Instrs int    `json:"ssa_instrs"`
	}
	var fns []fnRow
	for fn, n := range r.fnEncoded {
		if strings.Contains(fn, "zzverif") {
			continue
		}
		fns = append(fns, fnRow{fn, n, r.fnInstrs[fn]})
	}
	sort.Slice(fns, func(i, j int) bool { return fns[i].Fn < fns[j].Fn })
	assumptions := append([]string{}, r.spec.Assumptions...)
	for _, o := range r.spec.Outside {
		assumptions = append(assumptions, "outside the claim: "+o)
	}
	for _, s := range r.spec.Stubs {
		assumptions = append(assumptions, "stub/intrinsic: "+s)
	}
	assumptions = append(assumptions,
		"z3 4.8.12 answers are trusted for unsat verdicts (sat verdicts are replayed natively)",
		"the symbolic VM (engine/vm) implements go/ssa semantics faithfully; validated on every run by executing concrete vectors both in the VM and natively and comparing observations",
		"map iteration order: insertion order only")
	if len(r.samples) == 0 {
		r.samples = append(r.samples, "no path sample recorded")
	}
	cov := map[string]interface{}{
		"states":                        max1(r.totalPaths),
		"transitions":                   max1(int(r.totalSteps)),
		"traces_validated_against_impl": r.validated,
		"samples":                       r.samples,
		"explanation":                   "bounded symbolic execution of the real code (go/ssa from /repo's working tree): states = completed paths, transitions = SSA instructions executed, traces_validated = concrete vectors executed both natively and in the VM with identical observations + natively replayed counterexamples",
		"paths_by_status":               r.pathStatus,
		"functions_encoded":             fns,
		"functions_encoded_count":       len(fns),
		"bounds":                        r.spec.Bounds[r.tier],
		"queries":                       map[string]int{"total": r.totalQueries, "sat": r.qSat, "unsat": r.qUnsat, "unknown_or_error": r.qUnknown},
		"solver":                        "z3 4.8.12 (-in, incremental push/pop)",
		"solver_s":                      round(r.solverTime.Seconds()),
		"ssa_load_s":                    round(r.loadTime.Seconds()),
		"branches_decided_by_solver":    r.branches,
		"assertions_checked_by_solver":  r.assertsChecked,
		"assertions_constant_true":      r.trivialAsserts,
		"reach_witnesses":               r.reachLabels,
		"known_findings_hit":            r.knownHits,
		"inconclusive":                  r.inconclusive,
		"per_harness":                   r.perEntry,
		"exhaustive":                    len(r.inconclusive) == 0,
	}
	ev := map[string]interface{}{
		"property_id": r.id,
		"tier":        r.tier,
		"seed":        r.seed,
		"level":       "model_checking",
		"coverage":    cov,
		"assumptions": assumptions,
		"wall_s":      round(r.wall.Seconds()),
		"violations":  r.violations,
	}
	os.MkdirAll(filepath.Join(verifDir, "evidence"), 0o755)
	data, _ := json.MarshalIndent(ev, "", " ")
	os.WriteFile(filepath.Join(verifDir, "evidence", r.id+".json"), data, 0o644)
}

func max1(n int) int {
	if n < 1 {
		return 1
	}
	return n
}
