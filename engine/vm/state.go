package vm

import (
	"fmt"
	"sort"
	"strings"

	"golang.org/x/tools/go/ssa"

	"symgo/solver"
	"symgo/term"
)

// Decision kinds recorded along a path.
const (
	dFalse int32 = iota
	dTrue
	dForcedFalse
	dForcedTrue
	dAssertDone
	dChoiceBase = 16 // dChoiceBase + k: k-th alternative of a multi-way choice
)

type Input struct {
	Name string
	W    int
	Kind string // "byte","u64","bool","choice",...
}

type pathEnd struct {
	Status string // "ok","assume","infeasible","budget","unsupported","blocked","panic"
	Detail string
}

type targetPanic struct {
	V Value
	// for diagnostics
	Where string
}

type Failure struct {
	Label    string            // assertion label or "panic: ..."
	Known    string            // non-empty: matched known-finding class
	Inputs   []Input           // inputs in creation order
	Model    map[string]uint64 // values
	Detail   string
	Prefix   []int32
	PCSize   int
	Approx   bool
	PCScript string
	VMOnly   bool
}

type knownClass struct {
	Label string
	Cond  *term.T
	Only  []string // when non-empty: the class excuses only these assertion labels
}

func (k knownClass) applies(label string) bool {
	if len(k.Only) == 0 {
		return true
	}
	for _, l := range k.Only {
		if l == label {
			return true
		}
	}
	return false
}

// State is the per-path execution state.
type State struct {
	vm      *VM
	w       *Worker
	overlay map[*Obj]*Obj
	pc      []solver.Assertion
	prefix  []int32
	pos     int
	record  []int32
	inputs  []Input
	vars    map[string]int
	model   map[string]uint64
	steps   int
	inInit  int
	known   []knownClass
	spawned []spawnedCall
	trace   []string
	approx  bool
	reached map[string]bool
	obs     []uint64
	nextObj int
	depth   int
	concrete []uint64 // concrete mode: input values (nil = symbolic mode)
	cpos     int
	asserts  int
	curFn    string
	callStack []string
	lockTab  map[string]int
	bind     map[string]*term.T
	noIntrinsic *ssa.Function
	failedAsserts int
	syncMaps map[string]*[]syncMapEntry
	atomicVals map[string]*Value
	guards map[*Obj]guardInfo
	vmOnlyFailure bool
	fmtDepth int
	expectBlocked bool
	autoSched bool
	inSelect  bool
	auxN      int
	sch       sched
}

type spawnedCall struct {
	Fn      Value
	Args    []Value
	Started bool
}

// runPending implements the opt-in run-to-completion scheduler (zz.AutoSchedule): when the
// running goroutine would block, the oldest goroutine not yet started runs to completion
// (nested), then the blocking operation is retried. One schedule, stated as such.
func (st *State) runPending() bool {
	if !st.autoSched {
		return false
	}
	for i := range st.spawned {
		if !st.spawned[i].Started {
			st.spawned[i].Started = true
			sp := st.spawned[i]
			st.call(sp.Fn, sp.Args, nil)
			return true
		}
	}
	return false
}

func (st *State) end(status, detail string) {
	if status == "engine-error" {
		detail += " in " + st.curFn
	}
	panic(pathEnd{status, detail})
}

func (st *State) unsupported(format string, args ...interface{}) {
	panic(pathEnd{"unsupported", fmt.Sprintf(format, args...) + " in " + st.curFn})
}

func (st *State) addPC(c *term.T) {
	st.pc = append(st.pc, solver.NewAssertion(c))
	st.noteBinding(c)
}

func (st *State) replaying() bool { return st.pos < len(st.prefix) }

func (st *State) nextDecision() int32 {
	d := st.prefix[st.pos]
	st.pos++
	st.record = append(st.record, d)
	return d
}

// sat checks pc ∧ extra; on sat remembers the model.
func (st *State) sat(extra ...*term.T) (solver.Result, map[string]uint64) {
	r, m := st.w.solver.Check(st.pc, extra, st.vars)
	if r == solver.Error {
		st.end("solver-error", st.w.solver.LastErr)
	}
	return r, m
}

func (st *State) evalModel(c *term.T) (bool, bool) {
	if st.model == nil {
		return false, false
	}
	v, ok := term.Eval(c, st.model)
	if !ok {
		return false, false
	}
	return v == 1, true
}

// Branch decides a symbolic condition, forking the path when both sides are feasible.
func (st *State) Branch(c *term.T) bool {
	if c.IsConst() {
		return c.Val == 1
	}
	c = st.simp(c)
	if c.IsConst() {
		return c.Val == 1
	}
	if st.concrete != nil {
		st.end("engine-error", "symbolic condition in concrete mode")
	}
	if st.replaying() {
		switch st.nextDecision() {
		case dTrue:
			st.addPC(c)
			return true
		case dFalse:
			st.addPC(term.MkNot(c))
			return false
		case dForcedTrue:
			return true
		case dForcedFalse:
			return false
		default:
			st.end("engine-error", "decision kind mismatch at branch (non-deterministic replay)")
		}
	}
	st.w.branches++
	nc := term.MkNot(c)
	if len(st.pc) > 0 && c.Size() < 64 {
		// syntactic shortcut: the condition (or its negation) is already a conjunct
		cs, ncs := term.SMT(c), term.SMT(nc)
		for i := range st.pc {
			if st.pc[i].S == cs {
				st.record = append(st.record, dForcedTrue)
				return true
			}
			if st.pc[i].S == ncs {
				st.record = append(st.record, dForcedFalse)
				return false
			}
		}
	}
	tF, fF := 0, 0 // 0 unknown, 1 feasible, -1 infeasible
	var tM, fM map[string]uint64
	if v, ok := st.evalModel(c); ok {
		if v {
			tF, tM = 1, st.model
		} else {
			fF, fM = 1, st.model
		}
	}
	if tF == 0 {
		if m := st.guess(c); m != nil {
			tF, tM = 1, m
		}
	}
	if fF == 0 {
		if m := st.guess(nc); m != nil {
			fF, fM = 1, m
		}
	}
	if tF == 0 {
		r, m := st.sat(c)
		switch r {
		case solver.Sat:
			tF, tM = 1, m
		case solver.Unsat:
			tF = -1
		default:
			tF = 1
			st.approx = true
			st.w.unknownBranches++
		}
	}
	if fF == 0 {
		if tF == -1 {
			// pc is satisfiable (invariant), so the other side must be feasible
			fF = 1
		} else {
			r, m := st.sat(nc)
			switch r {
			case solver.Sat:
				fF, fM = 1, m
			case solver.Unsat:
				fF = -1
			default:
				fF = 1
				st.approx = true
				st.w.unknownBranches++
			}
		}
	}
	switch {
	case tF == 1 && fF == 1:
		// fork: enqueue the false side, continue with true
		alt := make([]int32, len(st.record)+1)
		copy(alt, st.record)
		alt[len(st.record)] = dFalse
		st.w.push(alt)
		st.record = append(st.record, dTrue)
		st.addPC(c)
		st.model = tM
		_ = fM
		return true
	case tF == 1:
		st.record = append(st.record, dForcedTrue)
		if tM != nil {
			st.model = tM
		}
		return true
	case fF == 1:
		st.record = append(st.record, dForcedFalse)
		if fM != nil {
			st.model = fM
		}
		return false
	}
	st.end("infeasible", "both sides infeasible")
	return false
}

// Choose picks one of n alternatives with the given guard conditions (exactly the feasible
// ones are explored). conds[i] may be nil for "true".
func (st *State) Choose(conds []*term.T) int {
	if st.replaying() {
		d := st.nextDecision()
		if d < dChoiceBase {
			st.end("engine-error", "decision kind mismatch at choice (non-deterministic replay)")
		}
		k := int(d - dChoiceBase)
		if conds[k] != nil {
			if ck := st.simp(conds[k]); !ck.IsConst() {
				st.addPC(ck)
			}
		}
		return k
	}
	var feas []int
	var models []map[string]uint64
	for i := range conds {
		if conds[i] != nil {
			conds[i] = st.simp(conds[i])
		}
	}
	for i, c := range conds {
		if c == nil || c.IsTrue() {
			feas = append(feas, i)
			models = append(models, st.model)
			continue
		}
		if c.IsFalse() {
			continue
		}
		if v, ok := st.evalModel(c); ok && v {
			feas = append(feas, i)
			models = append(models, st.model)
			continue
		}
		if m := st.guess(c); m != nil {
			feas = append(feas, i)
			models = append(models, m)
			continue
		}
		r, m := st.sat(c)
		if r == solver.Unsat {
			continue
		}
		if r != solver.Sat {
			st.approx = true
			st.w.unknownBranches++
		}
		feas = append(feas, i)
		models = append(models, m)
	}
	if len(feas) == 0 {
		st.end("infeasible", "no feasible alternative")
	}
	for j := len(feas) - 1; j >= 1; j-- {
		alt := make([]int32, len(st.record)+1)
		copy(alt, st.record)
		alt[len(st.record)] = dChoiceBase + int32(feas[j])
		st.w.push(alt)
	}
	k := feas[0]
	st.record = append(st.record, dChoiceBase+int32(k))
	if conds[k] != nil && !conds[k].IsConst() {
		st.addPC(conds[k])
	}
	st.model = models[0]
	return k
}

// Concretize forks over the feasible values of t in [lo,hi] and returns the chosen one.
func (st *State) Concretize(t *term.T, lo, hi int64) int64 {
	if t.IsConst() {
		return t.Signed()
	}
	if hi-lo > 64 {
		return st.concretizeByModel(t, lo, hi)
	}
	conds := make([]*term.T, 0, hi-lo+1)
	for v := lo; v <= hi; v++ {
		conds = append(conds, term.MkEq(t, term.BV(t.W, uint64(v))))
	}
	return lo + int64(st.Choose(conds))
}

// Assume restricts the path to c.
func (st *State) Assume(c *term.T) {
	c = st.simp(c)
	if c.IsConst() {
		if c.Val == 0 {
			st.end("assume", "")
		}
		return
	}
	if st.replaying() {
		d := st.nextDecision()
		if d == dTrue {
			st.addPC(c)
		} else if d != dForcedTrue {
			st.end("engine-error", "decision mismatch at assume")
		}
		return
	}
	if v, ok := st.evalModel(c); ok && v {
		// feasible under current model
	} else {
		r, m := st.sat(c)
		if r == solver.Unsat {
			st.end("assume", "")
		}
		if r != solver.Sat {
			st.approx = true
			st.w.unknownBranches++
			st.model = nil
		} else {
			st.model = m
		}
	}
	st.record = append(st.record, dTrue)
	st.addPC(c)
}

func (st *State) newInput(kind string, w int) *term.T {
	idx := len(st.inputs)
	name := fmt.Sprintf("in%d_%s%d", idx, kind, w)
	st.inputs = append(st.inputs, Input{Name: name, W: w, Kind: kind})
	if st.concrete != nil {
		var v uint64
		if st.cpos < len(st.concrete) {
			v = st.concrete[st.cpos]
		}
		st.cpos++
		if w == 0 {
			return term.Bool(v&1 == 1)
		}
		return term.BV(w, v)
	}
	st.vars[name] = w
	if st.model != nil {
		if _, ok := st.model[name]; !ok {
			// extend the model: fresh unconstrained variable can take any value
			st.model[name] = 0
		}
	}
	return term.NewVar(name, w)
}

// newAux returns a fresh unconstrained variable that is not a harness input (it models a
// value the VM does not track, e.g. the bit pattern of an opaque float); it never appears
// in replay vectors.
func (st *State) newAux(w int) *term.T {
	st.auxN++
	name := fmt.Sprintf("aux%d_%d", st.auxN, w)
	st.vars[name] = w
	if st.model != nil {
		if _, ok := st.model[name]; !ok {
			st.model[name] = 0
		}
	}
	return term.NewVar(name, w)
}

func (st *State) failure(label string, cond []*term.T, detail string) {
	// cond: extra conjuncts describing the failing situation (e.g. ¬c); nil for "pc itself".
	st.w.assertQueries++
	var known []knownClass
	for _, k := range st.known {
		if k.applies(label) {
			known = append(known, k)
		}
	}
	var notKnown []*term.T
	for _, k := range known {
		notKnown = append(notKnown, term.MkNot(k.Cond))
	}
	mk := func(known string, m map[string]uint64) Failure {
		ins := make([]Input, len(st.inputs))
		copy(ins, st.inputs)
		pre := make([]int32, len(st.record))
		copy(pre, st.record)
		f := Failure{Label: label, Known: known, Inputs: ins, Model: m, Detail: detail + st.scheduleString(), Prefix: pre, PCSize: len(st.pc), Approx: st.approx, VMOnly: st.vmOnlyFailure || (st.sch.on && len(st.sch.log) > 0)}
		f.PCScript = solver.Script(st.pc, cond)
		return f
	}
	if st.concrete != nil {
		// concrete mode: failure is definite
		knownLabel := ""
		for _, k := range known {
			if k.Cond.IsTrue() {
				knownLabel = k.Label
			}
		}
		m := map[string]uint64{}
		for i, in := range st.inputs {
			if i < len(st.concrete) {
				m[in.Name] = st.concrete[i]
			}
		}
		st.w.report(mk(knownLabel, m))
		return
	}
	if st.w.knownSeen(label, "") {
		// a violation with this label (outside every recorded class) is already established:
		// further witnesses add nothing
		return
	}
	ex := append(append([]*term.T{}, cond...), notKnown...)
	r, m := st.sat(ex...)
	switch r {
	case solver.Sat:
		st.w.report(mk("", m))
	case solver.Unsat:
	default:
		st.w.inconclusive(fmt.Sprintf("solver %v on assertion %q", r, label))
	}
	for _, k := range known {
		if k.Cond.IsFalse() {
			continue
		}
		if st.w.knownSeen(label, k.Label) {
			continue
		}
		ex := append(append([]*term.T{}, cond...), k.Cond)
		r, m := st.sat(ex...)
		switch r {
		case solver.Sat:
			st.w.report(mk(k.Label, m))
		case solver.Unsat:
		default:
			st.w.inconclusive(fmt.Sprintf("solver %v on known-class query %q/%q", r, label, k.Label))
		}
	}
}

// Assert checks c on the current path.
func (st *State) Assert(c *term.T, label string) {
	st.asserts++
	c = st.simp(c)
	if c.IsTrue() {
		st.w.trivialAsserts++
		return
	}
	if st.replaying() {
		d := st.nextDecision()
		switch d {
		case dAssertDone:
			return
		case dTrue:
			st.addPC(c)
			return
		default:
			st.end("engine-error", "decision mismatch at assert")
		}
	}
	if c.Size() < 64 {
		cs := term.SMT(c)
		for i := range st.pc {
			if st.pc[i].S == cs {
				st.w.trivialAsserts++
				st.record = append(st.record, dAssertDone)
				return
			}
		}
	}
	st.w.assertsChecked++
	if c.IsFalse() {
		st.failure(label, nil, "assertion is constant false")
		// keep going (as the native harness does) so that later assertions on this path
		// are still checked; the decision log remembers that this one was handled
		st.record = append(st.record, dAssertDone)
		st.failedAsserts++
		return
	}
	if st.concrete != nil {
		st.end("engine-error", "symbolic assert in concrete mode")
	}
	nc := term.MkNot(c)
	r, _ := st.sat(nc)
	switch r {
	case solver.Unsat:
		st.record = append(st.record, dAssertDone)
		return
	case solver.Sat:
		st.failure(label, []*term.T{nc}, "")
	default:
		st.w.inconclusive(fmt.Sprintf("solver %v on assertion %q", r, label))
	}
	// continue under c if feasible
	r2, m := st.sat(c)
	if r2 == solver.Unsat {
		st.end("assert-false", label)
	}
	st.model = m
	st.record = append(st.record, dTrue)
	st.addPC(c)
}

func (st *State) describeInputs(m map[string]uint64) string {
	var parts []string
	for _, in := range st.inputs {
		parts = append(parts, fmt.Sprintf("%s=%d", in.Name, m[in.Name]))
	}
	sort.Strings(parts)
	return strings.Join(parts, " ")
}
