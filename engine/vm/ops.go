package vm

import (
	"fmt"
	"go/constant"
	"go/token"
	"go/types"
	"math"
	"strings"
	"unicode/utf8"

	"golang.org/x/tools/go/ssa"

	"symgo/term"
)

func stringsBuilderPool() *strings.Builder { return &strings.Builder{} }

func (st *State) constValue(c *ssa.Const) Value {
	if c.Value == nil {
		return Zero(c.Type())
	}
	t := c.Type()
	if tp, ok := t.(*types.TypeParam); ok {
		_ = tp
		st.unsupported("constant of type parameter type")
	}
	switch u := under(t).(type) {
	case *types.Basic:
		switch {
		case u.Info()&types.IsBoolean != 0:
			return term.Bool(constant.BoolVal(c.Value))
		case u.Info()&types.IsInteger != 0:
			w := basicWidth(u)
			if u.Info()&types.IsUnsigned != 0 {
				v, _ := constant.Uint64Val(constant.ToInt(c.Value))
				return term.BV(w, v)
			}
			v, ok := constant.Int64Val(constant.ToInt(c.Value))
			if !ok {
				uv, _ := constant.Uint64Val(constant.ToInt(c.Value))
				return term.BV(w, uv)
			}
			return term.BV(w, uint64(v))
		case u.Info()&types.IsFloat != 0:
			f, _ := constant.Float64Val(c.Value)
			if u.Kind() == types.Float32 {
				return Float{float64(float32(f)), 32}
			}
			return Float{f, 64}
		case u.Info()&types.IsString != 0:
			if c.Value.Kind() == constant.String {
				return Str{S: constant.StringVal(c.Value)}
			}
			v, _ := constant.Int64Val(c.Value)
			return Str{S: string(rune(v))}
		case u.Info()&types.IsComplex != 0:
			re, _ := constant.Float64Val(constant.Real(c.Value))
			im, _ := constant.Float64Val(constant.Imag(c.Value))
			return Complex{complex(re, im), 128}
		}
	}
	st.unsupported("constant %v of type %v", c, t)
	return nil
}

func asTerm(st *State, v Value) *term.T {
	t, ok := v.(*term.T)
	if !ok {
		if p, isP := v.(Poison); isP {
			st.end("poison", p.Why)
		}
		st.end("engine-error", fmt.Sprintf("expected scalar, got %T", v))
	}
	return t
}

// asInt returns the concrete int value of v, concretizing by forking if necessary within
// [lo,hi].
func (st *State) asInt(v Value, lo, hi int64) int64 {
	t := asTerm(st, v)
	if t.IsConst() {
		return t.Signed()
	}
	return st.Concretize(t, lo, hi)
}

func (st *State) throwRuntime(msg string) {
	panic(targetPanic{V: st.vm.runtimeError(msg), Where: st.curFn})
}

func (st *State) binop(op token.Token, t, ty types.Type, x, y Value) Value {
	switch op {
	case token.EQL:
		return Equal(x, y)
	case token.NEQ:
		return term.MkNot(Equal(x, y))
	}
	switch a := x.(type) {
	case *term.T:
		b := asTerm(st, y)
		if a.W == 0 {
			switch op {
			case token.AND, token.LAND:
				return term.MkAnd(a, b)
			case token.OR, token.LOR:
				return term.MkOr(a, b)
			case token.XOR:
				return term.MkNot(term.MkEq(a, b))
			case token.AND_NOT:
				return term.MkAnd(a, term.MkNot(b))
			}
			st.unsupported("bool binop %v", op)
		}
		signed := isSigned(t)
		switch op {
		case token.SHL, token.SHR:
			// shift count may have a different width/type
			cnt := b
			if isSigned(ty) {
				if st.Branch(term.MkCmp(term.Slt, cnt, term.BV(cnt.W, 0))) {
					st.throwRuntime("negative shift amount")
				}
			}
			if cnt.W != a.W {
				if cnt.W > a.W {
					// count >= 2^a.W certainly >= width: saturate
					big := term.MkNot(term.MkEq(term.MkExtract(cnt.W-1, a.W, cnt), term.BV(cnt.W-a.W, 0)))
					low := term.MkExtract(a.W-1, 0, cnt)
					cnt = term.MkIte(big, term.BV(a.W, uint64(a.W)), low)
				} else {
					cnt = term.MkZExt(a.W, cnt)
				}
			}
			switch {
			case op == token.SHL:
				return term.MkBin(term.Shl, a, cnt)
			case signed:
				return term.MkBin(term.AShr, a, cnt)
			default:
				return term.MkBin(term.LShr, a, cnt)
			}
		}
		if a.W != b.W {
			st.end("engine-error", fmt.Sprintf("binop %v width mismatch %d/%d", op, a.W, b.W))
		}
		switch op {
		case token.ADD:
			return term.MkBin(term.Add, a, b)
		case token.SUB:
			return term.MkBin(term.Sub, a, b)
		case token.MUL:
			return term.MkBin(term.Mul, a, b)
		case token.QUO, token.REM:
			if st.Branch(term.MkEq(b, term.BV(b.W, 0))) {
				st.throwRuntime("integer divide by zero")
			}
			switch {
			case op == token.QUO && signed:
				return term.MkBin(term.SDiv, a, b)
			case op == token.QUO:
				return term.MkBin(term.UDiv, a, b)
			case signed:
				return term.MkBin(term.SRem, a, b)
			default:
				return term.MkBin(term.URem, a, b)
			}
		case token.AND:
			return term.MkBin(term.BAnd, a, b)
		case token.OR:
			return term.MkBin(term.BOr, a, b)
		case token.XOR:
			return term.MkBin(term.BXor, a, b)
		case token.AND_NOT:
			return term.MkBin(term.BAnd, a, term.MkBNot(b))
		case token.LSS:
			if signed {
				return term.MkCmp(term.Slt, a, b)
			}
			return term.MkCmp(term.Ult, a, b)
		case token.LEQ:
			if signed {
				return term.MkCmp(term.Sle, a, b)
			}
			return term.MkCmp(term.Ule, a, b)
		case token.GTR:
			if signed {
				return term.MkCmp(term.Slt, b, a)
			}
			return term.MkCmp(term.Ult, b, a)
		case token.GEQ:
			if signed {
				return term.MkCmp(term.Sle, b, a)
			}
			return term.MkCmp(term.Ule, b, a)
		}
	case OpaqueFloat:
		switch op {
		case token.ADD, token.SUB, token.MUL, token.QUO:
			return a
		}
		st.unsupported("comparison of an opaque float")
	case Float:
		if of, isO := y.(OpaqueFloat); isO {
			switch op {
			case token.ADD, token.SUB, token.MUL, token.QUO:
				return of
			}
			st.unsupported("comparison of an opaque float")
		}
		b, ok := y.(Float)
		if !ok {
			st.unsupported("float binop with %T", y)
		}
		var r float64
		switch op {
		case token.ADD:
			r = a.V + b.V
		case token.SUB:
			r = a.V - b.V
		case token.MUL:
			r = a.V * b.V
		case token.QUO:
			r = a.V / b.V
		case token.LSS:
			return term.Bool(a.V < b.V)
		case token.LEQ:
			return term.Bool(a.V <= b.V)
		case token.GTR:
			return term.Bool(a.V > b.V)
		case token.GEQ:
			return term.Bool(a.V >= b.V)
		default:
			st.unsupported("float binop %v", op)
		}
		if a.Bits == 32 {
			r = float64(float32(r))
		}
		return Float{r, a.Bits}
	case Str:
		b := y.(Str)
		switch op {
		case token.ADD:
			return StrConcat(a, b)
		case token.LSS:
			return StrLess(a, b)
		case token.GTR:
			return StrLess(b, a)
		case token.LEQ:
			return term.MkNot(StrLess(b, a))
		case token.GEQ:
			return term.MkNot(StrLess(a, b))
		}
	case Poison:
		return a
	}
	if p, ok := y.(Poison); ok {
		return p
	}
	st.unsupported("binop %v on %T", op, x)
	return nil
}

func (st *State) unop(instr *ssa.UnOp, x Value) Value {
	switch instr.Op {
	case token.MUL: // load
		p, ok := x.(Ptr)
		if !ok {
			if po, isP := x.(Poison); isP {
				st.end("poison", po.Why)
			}
			st.end("engine-error", fmt.Sprintf("load through %T", x))
		}
		return st.Load(p)
	case token.NOT:
		return term.MkNot(asTerm(st, x))
	case token.SUB:
		switch a := x.(type) {
		case *term.T:
			return term.MkNeg(a)
		case Float:
			return Float{-a.V, a.Bits}
		case OpaqueFloat:
			return a
		}
	case token.XOR:
		return term.MkBNot(asTerm(st, x))
	case token.ARROW:
		return st.chanRecv(x.(ChanRef), instr.CommaOk, instr.X.Type().Underlying().(*types.Chan).Elem())
	}
	st.unsupported("unop %v on %T", instr.Op, x)
	return nil
}

// encodeRune returns the UTF-8 encoding of a concrete rune like string(rune).
func encodeRune(r rune) string {
	if r < 0 || r > utf8.MaxRune || (r >= 0xD800 && r <= 0xDFFF) {
		r = utf8.RuneError
	}
	return string(r)
}

func (st *State) conv(tdst, tsrc types.Type, x Value) Value {
	ud, us := under(tdst), under(tsrc)
	if p, ok := x.(Poison); ok {
		return p
	}
	// unsafe.Pointer <-> pointer, uintptr
	if b, ok := ud.(*types.Basic); ok && b.Kind() == types.UnsafePointer {
		switch v := x.(type) {
		case Ptr:
			return v
		case *term.T:
			if v.IsConst() && v.Val == 0 {
				return Ptr{}
			}
			if up, ok := st.vm.uintptrs[v]; ok {
				return up
			}
			st.unsupported("uintptr -> unsafe.Pointer")
		}
	}
	if b, ok := us.(*types.Basic); ok && b.Kind() == types.UnsafePointer {
		switch pt := ud.(type) {
		case *types.Pointer:
			if p, ok := x.(Ptr); ok && p.O != nil {
				if np, did := st.reinterpret(p, pt.Elem()); did {
					return np
				}
			}
			return x
		case *types.Basic: // uintptr
			p := x.(Ptr)
			if p.O == nil {
				return term.BV(64, 0)
			}
			// fake address: object id * 2^20 + hash of path (only usable for comparisons / round trips)
			addr := uint64(p.O.ID) << 24
			for _, e := range p.Path {
				addr += uint64(e.I+1) * 8
			}
			t := term.BV(64, addr)
			st.vm.uintptrs[t] = p
			return t
		}
	}
	switch ud := ud.(type) {
	case *types.Basic:
		switch {
		case ud.Info()&types.IsInteger != 0:
			w := basicWidth(ud)
			switch v := x.(type) {
			case *term.T:
				if v.W == w {
					return v
				}
				if v.W > w {
					return term.MkExtract(w-1, 0, v)
				}
				if isSigned(tsrc) {
					return term.MkSExt(w, v)
				}
				return term.MkZExt(w, v)
			case Float:
				f := v.V
				if ud.Info()&types.IsUnsigned != 0 {
					if f < 0 || f >= 18446744073709551616.0 || f != f {
						return term.BV(w, 1<<63) // implementation-defined
					}
					return term.BV(w, uint64(f))
				}
				if f != f || f >= 9223372036854775808.0 || f < -9223372036854775808.0 {
					return term.BV(w, 1<<63)
				}
				return term.BV(w, uint64(int64(f)))
			}
		case ud.Info()&types.IsFloat != 0:
			bits := floatBits(ud)
			var f float64
			switch v := x.(type) {
			case *term.T:
				if !v.IsConst() {
					cv, ok := st.concretizeSmall(v, 16)
					if !ok {
						return OpaqueFloat{bits}
					}
					v = term.BV(v.W, cv)
				}
				if isSigned(tsrc) {
					f = float64(v.Signed())
				} else {
					f = float64(v.Val)
				}
			case Float:
				f = v.V
			case OpaqueFloat:
				return OpaqueFloat{bits}
			default:
				st.unsupported("conv %T to float", x)
			}
			if bits == 32 {
				f = float64(float32(f))
			}
			return Float{f, bits}
		case ud.Info()&types.IsString != 0:
			switch v := x.(type) {
			case Str:
				return v
			case *term.T: // integer -> string
				if v.IsConst() {
					var r rune
					if isSigned(tsrc) {
						s := v.Signed()
						if s < math.MinInt32 || s > math.MaxInt32 {
							r = utf8.RuneError
						} else {
							r = rune(s)
						}
					} else if v.Val > math.MaxInt32 {
						r = utf8.RuneError
					} else {
						r = rune(v.Val)
					}
					return Str{S: encodeRune(r)}
				}
				return st.symRuneToString(v, tsrc)
			case Slice:
				switch el := under(tsrc).(*types.Slice).Elem().Underlying().(*types.Basic); el.Kind() {
				case types.Uint8:
					return StrFromBytes(st.sliceBytes(v))
				case types.Int32: // []rune
					var out Str
					for _, e := range st.sliceElems(v) {
						out = StrConcat(out, st.conv(tdst, types.Typ[types.Rune], e).(Str))
					}
					return out
				}
			}
		case ud.Info()&types.IsBoolean != 0:
			return x
		case ud.Info()&types.IsComplex != 0:
			return x
		}
	case *types.Slice:
		if s, ok := x.(Str); ok {
			switch el := ud.Elem().Underlying().(*types.Basic); el.Kind() {
			case types.Uint8:
				return st.bytesToSlice(append([]*term.T(nil), s.Bytes()...))
			case types.Int32:
				// []rune(s): decode via the interpreted utf8 decoder for symbolic strings
				var vals []Value
				it := &StrIter{S: s}
				for {
					ok, _, r := st.strIterNext(it)
					if !ok {
						break
					}
					vals = append(vals, r)
				}
				return st.sliceFromValues(types.Typ[types.Rune], vals)
			}
		}
		if _, ok := x.(Slice); ok {
			return x
		}
	case *types.Pointer:
		return x
	case *types.Array, *types.Struct, *types.Map, *types.Chan, *types.Signature, *types.Interface:
		return x
	}
	st.unsupported("conversion %v -> %v (%T)", tsrc, tdst, x)
	return nil
}

// symRuneToString implements string(r) for a symbolic rune by calling the interpreted
// utf8.AppendRune.
func (st *State) symRuneToString(v *term.T, tsrc types.Type) Value {
	var r32 *term.T
	w := v.W
	if w > 32 {
		// out of int32 range => RuneError
		var inRange *term.T
		if isSigned(tsrc) {
			inRange = term.MkEq(term.MkSExt(w, term.MkExtract(31, 0, v)), v)
		} else {
			inRange = term.MkCmp(term.Ule, v, term.BV(w, math.MaxInt32))
		}
		r32 = term.MkIte(inRange, term.MkExtract(31, 0, v), term.BV(32, uint64(utf8.RuneError)))
	} else if w < 32 {
		if isSigned(tsrc) {
			r32 = term.MkSExt(32, v)
		} else {
			r32 = term.MkZExt(32, v)
		}
	} else {
		r32 = v
	}
	fn := st.vm.lookupFunc("unicode/utf8", "AppendRune")
	if fn == nil {
		st.unsupported("utf8.AppendRune not loaded")
	}
	res := st.call(fn, []Value{Slice{}, r32}, nil)
	return StrFromBytes(st.sliceBytes(res.(Slice)))
}

// strIterNext advances a string range iterator: returns ok, index, rune.
func (st *State) strIterNext(it *StrIter) (bool, Value, Value) {
	n := it.S.Len()
	if it.I >= n {
		return false, term.BV(64, 0), term.BV(32, 0)
	}
	i := it.I
	if it.S.B == nil {
		r, sz := utf8.DecodeRuneInString(it.S.S[i:])
		it.I += sz
		return true, term.BV(64, uint64(i)), term.BV(32, uint64(r))
	}
	// fast path: constant ASCII byte
	b0 := it.S.B[i]
	if b0.IsConst() && b0.Val < 0x80 {
		it.I++
		return true, term.BV(64, uint64(i)), term.BV(32, b0.Val)
	}
	fn := st.vm.lookupFunc("unicode/utf8", "DecodeRuneInString")
	if fn == nil {
		st.unsupported("utf8.DecodeRuneInString not loaded")
	}
	res := st.call(fn, []Value{it.S.Slice(i, n)}, nil).(Tuple)
	sz := st.asInt(res[1], 0, 4)
	it.I += int(sz)
	return true, term.BV(64, uint64(i)), res[0]
}

// typeAtPath follows a pointer path through a type.
func typeAtPath(t types.Type, path []PathElem) types.Type {
	for _, e := range path {
		if t == nil {
			return nil
		}
		switch u := t.Underlying().(type) {
		case *types.Struct:
			if e.I >= u.NumFields() {
				return nil
			}
			t = u.Field(e.I).Type()
		case *types.Array:
			t = u.Elem()
		default:
			return nil
		}
	}
	return t
}

func flatIntWidth(t types.Type) (elemBits int, count int, ok bool) {
	switch u := t.Underlying().(type) {
	case *types.Basic:
		if u.Info()&types.IsInteger != 0 {
			return basicWidth(u), 1, true
		}
	case *types.Array:
		eb, c, ok := flatIntWidth(u.Elem())
		if ok {
			return eb, c * int(u.Len()), true
		}
	}
	return 0, 0, false
}

func buildFlat(t types.Type, elems []*term.T, pos *int) Value {
	switch u := t.Underlying().(type) {
	case *types.Basic:
		v := elems[*pos]
		*pos++
		return v
	case *types.Array:
		a := &ArrayV{E: make([]Value, u.Len())}
		for i := range a.E {
			a.E[i] = buildFlat(u.Elem(), elems, pos)
		}
		return a
	}
	return nil
}

// reinterpret handles unsafe casts between integer-array layouts, e.g.
// (*[16]uint8)(unsafe.Pointer(&[]uint64{...}[0])): it returns a pointer to a fresh copy of
// the bytes viewed as the target type (little endian). Aliasing with the source is lost,
// which is sound only for read-only uses; the copy is frozen-by-convention.
func (st *State) reinterpret(p Ptr, target types.Type) (Ptr, bool) {
	if p.O.Typ == nil || len(p.Path) == 0 {
		return p, false
	}
	cur := typeAtPath(p.O.Typ, p.Path)
	if cur == nil || types.Identical(cur, target) {
		return p, false
	}
	tBits, tCount, ok1 := flatIntWidth(target)
	sBits, _, ok2 := flatIntWidth(cur)
	if !ok1 || !ok2 {
		return p, false
	}
	last := p.Path[len(p.Path)-1]
	if last.Sym != nil {
		return p, false
	}
	parent, ok := st.walk(st.rd(p.O).V, p.Path[:len(p.Path)-1]).(*ArrayV)
	if !ok {
		return p, false
	}
	needBytes := tBits / 8 * tCount
	sBytes := sBits / 8
	var bytes []*term.T
	for i := last.I; i < len(parent.E) && len(bytes) < needBytes; i++ {
		e, ok := parent.E[i].(*term.T)
		if !ok {
			return p, false
		}
		for b := 0; b < sBytes; b++ {
			bytes = append(bytes, term.MkExtract(b*8+7, b*8, e))
		}
	}
	if len(bytes) < needBytes {
		st.unsupported("unsafe reinterpretation reads past the end of the source array")
	}
	elems := make([]*term.T, tCount)
	tb := tBits / 8
	for i := range elems {
		v := bytes[i*tb]
		for b := 1; b < tb; b++ {
			v = term.MkConcat(bytes[i*tb+b], v)
		}
		elems[i] = v
	}
	pos := 0
	val := buildFlat(target, elems, &pos)
	o := st.newObj(val, target)
	return Ptr{O: o}, true
}
