package vm

import (
	"golang.org/x/tools/go/ssa"

	"symgo/term"
)

// sync/atomic.Value stores an interface through raw word pointers; modelled as a cell per
// Value object in the per-path state (sequential semantics).
func (st *State) atomicCell(p Ptr) *Value {
	if st.atomicVals == nil {
		st.atomicVals = map[string]*Value{}
	}
	k := ptrKey(p)
	c, ok := st.atomicVals[k]
	if !ok {
		var v Value = Iface{}
		c = &v
		st.atomicVals[k] = c
	}
	return c
}

func registerAtomicValueIntrinsics() {
	intrinsics["(*sync/atomic.Value).Load"] = func(st *State, _ *frame, _ *ssa.Function, a []Value) Value {
		return *st.atomicCell(a[0].(Ptr))
	}
	intrinsics["(*sync/atomic.Value).Store"] = func(st *State, _ *frame, _ *ssa.Function, a []Value) Value {
		if v, ok := a[1].(Iface); ok && v.T == nil {
			st.throwRuntime("sync/atomic: store of nil value into Value")
		}
		*st.atomicCell(a[0].(Ptr)) = a[1]
		return nil
	}
	intrinsics["(*sync/atomic.Value).Swap"] = func(st *State, _ *frame, _ *ssa.Function, a []Value) Value {
		c := st.atomicCell(a[0].(Ptr))
		old := *c
		*c = a[1]
		return old
	}
	intrinsics["(*sync/atomic.Value).CompareAndSwap"] = func(st *State, _ *frame, _ *ssa.Function, a []Value) Value {
		c := st.atomicCell(a[0].(Ptr))
		if st.Branch(Equal(*c, a[1])) {
			*c = a[2]
			return term.True
		}
		return term.False
	}
}
