package vm

import (
	"symgo/solver"
	"symgo/term"
)

// smallDomain enumerates the feasible values of t under the path condition if there are at
// most max of them. It is used to keep integer-to-float conversions concrete when the
// integer can only take a handful of values (lengths, digit counts, exponents).
func (st *State) smallDomain(t *term.T, max int) ([]uint64, bool) {
	if st.replaying() {
		// the enumeration is recorded as a choice; recompute deterministically below
	}
	var vals []uint64
	var excl []*term.T
	for len(vals) <= max {
		r, m := st.sat(excl...)
		if r == solver.Unsat {
			return vals, len(vals) > 0
		}
		if r != solver.Sat {
			return nil, false
		}
		v, ok := term.Eval(t, m)
		if !ok {
			return nil, false
		}
		vals = append(vals, v)
		excl = append(excl, term.MkNot(term.MkEq(t, term.BV(t.W, v))))
	}
	return nil, false
}

// concretizeSmall forks over the feasible values of t when there are at most max of them.
// The set of candidate values is recorded in the decision log through Choose, so replays
// need the same candidates: they are recomputed in sorted order.
func (st *State) concretizeSmall(t *term.T, max int) (uint64, bool) {
	if t.IsConst() {
		return t.Val, true
	}
	vals, ok := st.smallDomain(t, max)
	if !ok {
		return 0, false
	}
	// sort for determinism across replays
	for i := 1; i < len(vals); i++ {
		for j := i; j > 0 && vals[j] < vals[j-1]; j-- {
			vals[j], vals[j-1] = vals[j-1], vals[j]
		}
	}
	conds := make([]*term.T, len(vals))
	for i, v := range vals {
		conds[i] = term.MkEq(t, term.BV(t.W, v))
	}
	k := st.Choose(conds)
	return vals[k], true
}
