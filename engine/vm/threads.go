package vm

import (
	"fmt"
	"os"
	"strings"

	"golang.org/x/tools/go/ssa"

	"symgo/term"
)

// Interleaving scheduler (opt-in, zz.Schedule(p)).
//
// Every `go` statement starts a VM thread. Exactly one thread runs at a time; each has its
// own host goroutine (the interpreter recurses on the host stack) and control is handed
// over explicitly. Threads switch only at synchronisation operations (mutex, channel,
// select, atomic, Once, WaitGroup, go statement, thread exit), which is sound for
// data-race-free code. A switch away from a thread that could continue is a *preemption*;
// at most p preemptions happen on a path (context bounding), switches forced by blocking
// or by thread exit are free. Which thread runs next is a recorded choice, so the explorer
// enumerates every schedule within the bound exactly like it enumerates branches.
// A state where no thread can continue and the main thread has not finished ends the path
// as "blocked" (deadlock), which the driver reports as a failure.

type thread struct {
	id      int
	fn      Value
	args    []Value
	resume  chan struct{}
	exited  chan struct{}
	started bool
	done    bool
	waitGen int // generation at which the thread blocked; -1 = not blocked
	ctx     threadCtx
}

type threadCtx struct {
	curFn       string
	callStack   []string
	depth       int
	fmtDepth    int
	noIntrinsic *ssa.Function
}

type sched struct {
	on          bool
	threads     []*thread
	cur         int
	gen         int
	preemptLeft int
	killed      bool
	end         *pathEnd // terminal event raised in a non-main thread
	log         []int    // thread ids in the order they were switched to
	events      []string // SYMGO_SCHED_TRACE=1: synchronisation events, for debugging harnesses
}

var schedTrace = os.Getenv("SYMGO_SCHED_TRACE") != ""

func (st *State) ev(what string) {
	if schedTrace && st.sch.on {
		st.sch.events = append(st.sch.events, fmt.Sprintf("T%d %s @%s", st.sch.cur, what, st.curFn))
	}
}

type threadKill struct{}

// goexitUnwind unwinds a VM thread for runtime.Goexit: deferred calls run, recover() does not
// see it, the thread then counts as finished.
type goexitUnwind struct{}

func (st *State) schedOn(preemptions int) {
	if st.sch.on {
		st.sch.preemptLeft = preemptions // a later call sets a new budget for what follows
		return
	}
	st.sch.on = true
	st.sch.preemptLeft = preemptions
	st.sch.threads = []*thread{{id: 0, resume: make(chan struct{}), started: true, waitGen: -1}}
}

func (st *State) curThread() *thread { return st.sch.threads[st.sch.cur] }

func (st *State) saveCtx(t *thread) {
	t.ctx = threadCtx{st.curFn, st.callStack, st.depth, st.fmtDepth, st.noIntrinsic}
}

func (st *State) loadCtx(t *thread) {
	st.curFn, st.callStack, st.depth, st.fmtDepth, st.noIntrinsic = t.ctx.curFn, t.ctx.callStack, t.ctx.depth, t.ctx.fmtDepth, t.ctx.noIntrinsic
}

// progress marks a state change that may unblock other threads.
func (st *State) progress() { st.sch.gen++ }

// eligible lists the threads that can run, in round-robin order after the current one.
func (st *State) eligible(except *thread) []*thread {
	var r []*thread
	n := len(st.sch.threads)
	for k := 1; k <= n; k++ {
		t := st.sch.threads[(st.sch.cur+k)%n]
		if t == except || t.done {
			continue
		}
		if t.waitGen >= 0 && st.sch.gen <= t.waitGen {
			continue
		}
		r = append(r, t)
	}
	return r
}

// chooseThread implements delay-bounded scheduling (Emmi, Qadeer, Rakamaric 2011): the
// default is a deterministic scheduler (stay on the running thread; when it cannot run, the
// next thread in round-robin order); deviating to the k-th alternative costs k units of the
// path's budget. With budget 0 exactly one schedule is explored, every unit adds the
// schedules reachable by one more deviation.
func (st *State) chooseThread(c []*thread, withStay bool) int {
	n := len(c)
	if withStay {
		n++
	}
	if n > st.sch.preemptLeft+1 {
		n = st.sch.preemptLeft + 1
	}
	if n <= 1 {
		return 0
	}
	k := st.Choose(make([]*term.T, n))
	st.sch.preemptLeft -= k
	return k
}

// spawnThread is the `go` statement under the scheduler.
func (st *State) spawnThread(fn Value, args []Value) {
	t := &thread{id: len(st.sch.threads), fn: fn, args: args, resume: make(chan struct{}), exited: make(chan struct{}), waitGen: -1}
	st.sch.threads = append(st.sch.threads, t)
	go st.threadMain(t)
}

func (st *State) threadMain(t *thread) {
	defer close(t.exited)
	<-t.resume
	if st.sch.killed {
		return
	}
	t.started = true
	st.loadCtx(t)
	r := st.catch(func() { st.call(t.fn, t.args, nil) })
	if _, ge := r.(goexitUnwind); ge {
		r = nil
	}
	if r == nil {
		st.ev("exits")
		t.done = true
		st.progress()
		r = st.catch(func() { st.handOver(t) })
		if r == nil {
			return
		}
	}
	if _, ok := r.(threadKill); ok {
		return
	}
	var pe pathEnd
	switch e := r.(type) {
	case pathEnd:
		pe = e
	case targetPanic:
		// a panic that escapes a goroutine crashes the process
		pe = pathEnd{"panic", describePanic(e.V) + " (escaped goroutine " + fmt.Sprint(t.id) + ", raised in " + e.Where + ")"}
		if r2 := st.catch(func() { st.failure("uncaught "+describePanic(e.V), nil, "escaped a goroutine; raised in "+e.Where) }); r2 != nil {
			if p2, ok := r2.(pathEnd); ok {
				pe = p2
			}
		}
	case engineCrash:
		pe = pathEnd{"engine-crash", e.Msg + " in " + e.Fn}
	default:
		pe = pathEnd{"engine-crash", fmt.Sprint(r)}
	}
	st.sch.end = &pe
	st.sch.cur = 0
	st.sch.threads[0].resume <- struct{}{}
}

func (st *State) catch(f func()) (r any) {
	defer func() { r = recover() }()
	f()
	return nil
}

// handOver passes control from a finished thread to another one.
func (st *State) handOver(t *thread) {
	c := st.eligible(t)
	if len(c) == 0 {
		st.end("blocked", "deadlock: a goroutine finished and every remaining goroutine is blocked")
	}
	next := c[st.chooseThread(c, false)]
	st.sch.cur = next.id
	st.sch.log = append(st.sch.log, next.id)
	next.resume <- struct{}{}
}

// switchTo parks the current thread and runs next.
func (st *State) switchTo(next *thread) {
	cur := st.curThread()
	st.saveCtx(cur)
	st.sch.cur = next.id
	st.sch.log = append(st.sch.log, next.id)
	next.resume <- struct{}{}
	<-cur.resume
	if st.sch.killed {
		panic(threadKill{})
	}
	if st.sch.end != nil {
		// only the main thread is woken for this
		panic(*st.sch.end)
	}
	st.loadCtx(cur)
}

// yield is a preemption point placed before every synchronisation operation.
func (st *State) yield() {
	st.ev("sync")
	if !st.sch.on || st.inInit > 0 || st.sch.preemptLeft <= 0 {
		return
	}
	c := st.eligible(st.curThread())
	if len(c) == 0 {
		return
	}
	k := st.chooseThread(c, true)
	if k == 0 {
		return
	}
	st.switchTo(c[k-1])
}

// block is called when the current thread cannot continue; it returns when the thread is
// scheduled again (the caller re-checks its condition). Reports false when the scheduler is
// off so that callers fall back to the sequential behaviour.
func (st *State) block(what string) bool {
	if !st.sch.on {
		return false
	}
	if st.inInit > 0 {
		st.end("unsupported", "blocking operation during package initialisation")
	}
	st.ev("blocks: " + what)
	cur := st.curThread()
	cur.waitGen = st.sch.gen
	c := st.eligible(cur)
	if len(c) == 0 {
		st.end("blocked", "deadlock: every goroutine is blocked ("+what+")")
	}
	st.switchTo(c[st.chooseThread(c, false)])
	cur.waitGen = -1
	return true
}

// killThreads releases every parked host goroutine at the end of a path.
func (st *State) killThreads() {
	if !st.sch.on {
		return
	}
	st.sch.killed = true
	for _, t := range st.sch.threads[1:] {
		select {
		case <-t.exited:
		default:
			select {
			case t.resume <- struct{}{}:
			case <-t.exited:
			}
		}
	}
	for _, t := range st.sch.threads[1:] {
		<-t.exited
	}
}

func (st *State) scheduleString() string {
	if !st.sch.on || len(st.sch.log) == 0 {
		return ""
	}
	s := fmt.Sprintf(" [schedule: goroutine switches %v, 0 = harness]", st.sch.log)
	if schedTrace {
		s += "\n    " + strings.Join(st.sch.events, "\n    ")
	}
	return s
}
