package vm

// Lock-set checking: a harness may register a map object as guarded by a mutex
// (zz.GuardMap). Every later read of the map requires the mutex to be held (read or
// write), every write requires it to be write-held. A violation is reported through the
// normal failure machinery under the label given at registration; it is a statement about
// the executed code path (which lock is held at the access), so it is not replayed natively.
type guardInfo struct {
	lockKey string
	label   string
}

func (st *State) guardCheck(mr MapRef, write bool) {
	if st.guards == nil || mr.O == nil {
		return
	}
	g, ok := st.guards[mr.O]
	if !ok {
		return
	}
	s := st.locks2()[g.lockKey]
	if s == -1 || (!write && s > 0) {
		return
	}
	kind := "read"
	if write {
		kind = "write"
	}
	st.vmOnlyFailure = true
	st.failure(g.label+"-"+kind, nil, "guarded map accessed without holding its mutex in "+st.curFn)
	st.vmOnlyFailure = false
}
