package vm

import (
	"fmt"
	"go/types"

	"symgo/term"
)

func (st *State) newObj(v Value, t types.Type) *Obj {
	st.vm.objCtr++
	o := &Obj{ID: st.vm.objCtr, V: v, Typ: t}
	if st.inInit > 0 {
		st.vm.initObjs = append(st.vm.initObjs, o)
	}
	return o
}

// rd returns the object to read from (resolving the per-path overlay of frozen objects).
func (st *State) rd(o *Obj) *Obj {
	if o.Frozen && st.inInit == 0 {
		if c, ok := st.overlay[o]; ok {
			return c
		}
	}
	return o
}

// wr returns the object to write to (copying a frozen object into the overlay first).
func (st *State) wr(o *Obj) *Obj {
	if o.Frozen && st.inInit == 0 {
		if c, ok := st.overlay[o]; ok {
			return c
		}
		c := &Obj{ID: o.ID, Typ: o.Typ, Tag: o.Tag}
		switch v := o.V.(type) {
		case *MapV:
			nm := &MapV{Entries: append([]mapEntry(nil), v.Entries...), Idx: make(map[string]int, len(v.Idx)), NSym: v.NSym, N: v.N}
			for k, i := range v.Idx {
				nm.Idx[k] = i
			}
			c.V = nm
		case *ChanV:
			c.V = &ChanV{Buf: append([]Value(nil), v.Buf...), Cap: v.Cap, Closed: v.Closed}
		default:
			c.V = CopyVal(o.V)
		}
		st.overlay[o] = c
		return c
	}
	return o
}

func (st *State) nilDeref() {
	st.throwRuntime("invalid memory address or nil pointer dereference")
}

// iteTree builds a balanced selection over leaves[lo:hi) by the absolute index idx.
func iteTree(idx *term.T, leaves []*term.T, lo, hi int) *term.T {
	if hi-lo == 1 {
		return leaves[lo-0]
	}
	// all same?
	same := true
	for k := lo + 1; k < hi; k++ {
		if !term.Same(leaves[k], leaves[lo]) {
			same = false
			break
		}
	}
	if same {
		return leaves[lo]
	}
	mid := (lo + hi) / 2
	return term.MkIte(term.MkCmp(term.Ult, idx, term.BV(idx.W, uint64(mid))), iteTree(idx, leaves, lo, mid), iteTree(idx, leaves, mid, hi))
}

func (st *State) walk(v Value, path []PathElem) Value {
	for i, e := range path {
		switch c := v.(type) {
		case *StructV:
			v = c.F[e.I]
		case *ArrayV:
			if e.Sym != nil {
				leaves := make([]*term.T, e.Hi)
				for k := e.Lo; k < e.Hi; k++ {
					l, ok := st.walk(c.E[k], path[i+1:]).(*term.T)
					if !ok {
						st.unsupported("symbolic index over non-scalar element")
					}
					leaves[k] = l
				}
				if e.Hi <= e.Lo {
					st.end("engine-error", "empty symbolic index range")
				}
				return iteTree(e.Sym, leaves, e.Lo, e.Hi)
			}
			if e.I < 0 || e.I >= len(c.E) {
				st.end("engine-error", fmt.Sprintf("walk: index %d out of range %d", e.I, len(c.E)))
			}
			v = c.E[e.I]
		case Poison:
			return c
		default:
			st.end("engine-error", fmt.Sprintf("walk: cannot descend into %T", v))
		}
	}
	return v
}

func (st *State) Load(p Ptr) Value {
	if p.O == nil {
		st.nilDeref()
	}
	o := st.rd(p.O)
	return CopyVal(st.walk(o.V, p.Path))
}

func (st *State) storeAt(slot *Value, path []PathElem, val Value, guard *term.T) {
	if len(path) == 0 {
		if guard == nil {
			*slot = val
			return
		}
		old, ok1 := (*slot).(*term.T)
		nv, ok2 := val.(*term.T)
		if !ok1 || !ok2 {
			st.unsupported("guarded store of non-scalar")
		}
		*slot = term.MkIte(guard, nv, old)
		return
	}
	e := path[0]
	switch c := (*slot).(type) {
	case *StructV:
		st.storeAt(&c.F[e.I], path[1:], val, guard)
	case *ArrayV:
		if e.Sym != nil {
			for k := e.Lo; k < e.Hi; k++ {
				g := term.MkEq(e.Sym, term.BV(e.Sym.W, uint64(k)))
				if guard != nil {
					g = term.MkAnd(guard, g)
				}
				st.storeAt(&c.E[k], path[1:], val, g)
			}
			return
		}
		st.storeAt(&c.E[e.I], path[1:], val, guard)
	default:
		st.end("engine-error", fmt.Sprintf("store: cannot descend into %T", *slot))
	}
}

func (st *State) Store(p Ptr, val Value) {
	if p.O == nil {
		st.nilDeref()
	}
	o := st.wr(p.O)
	st.storeAt(&o.V, p.Path, CopyVal(val), nil)
}

func appendPath(p []PathElem, e PathElem) []PathElem {
	n := make([]PathElem, len(p)+1)
	copy(n, p)
	n[len(p)] = e
	return n
}

// elemPtr returns a pointer to element i of the array that arr points to.
func elemPtr(arr Ptr, i int) Ptr {
	return Ptr{O: arr.O, Path: appendPath(arr.Path, PathElem{I: i})}
}

// arrayOf returns the backing array a slice points into.
func (st *State) arrayOf(p Ptr) *ArrayV {
	o := st.rd(p.O)
	a, ok := st.walk(o.V, p.Path).(*ArrayV)
	if !ok {
		st.end("engine-error", "slice backing store is not an array")
	}
	return a
}

func (st *State) arrayOfW(p Ptr) *ArrayV {
	o := st.wr(p.O)
	a, ok := st.walk(o.V, p.Path).(*ArrayV)
	if !ok {
		st.end("engine-error", "slice backing store is not an array")
	}
	return a
}

// sliceElems returns the current element values of a slice (not copied).
func (st *State) sliceElems(s Slice) []Value {
	if s.Len == 0 {
		return nil
	}
	a := st.arrayOf(s.Arr)
	return a.E[s.Off : s.Off+s.Len]
}

func (st *State) makeSlice(elem types.Type, n, c int) Slice {
	arr := &ArrayV{E: make([]Value, c)}
	if c > 0 {
		z := Zero(elem)
		switch z.(type) {
		case *StructV, *ArrayV:
			for i := range arr.E {
				arr.E[i] = CopyVal(z)
			}
		default:
			for i := range arr.E {
				arr.E[i] = z
			}
		}
	}
	o := st.newObj(arr, types.NewArray(elem, int64(c)))
	return Slice{Arr: Ptr{O: o}, Off: 0, Len: n, Cap: c}
}

func (st *State) sliceFromValues(elem types.Type, vals []Value) Slice {
	arr := &ArrayV{E: vals}
	o := st.newObj(arr, types.NewArray(elem, int64(len(vals))))
	return Slice{Arr: Ptr{O: o}, Off: 0, Len: len(vals), Cap: len(vals)}
}

func (st *State) bytesToSlice(b []*term.T) Slice {
	vals := make([]Value, len(b))
	for i, t := range b {
		vals[i] = t
	}
	return st.sliceFromValues(types.Typ[types.Byte], vals)
}

func (st *State) sliceBytes(s Slice) []*term.T {
	el := st.sliceElems(s)
	b := make([]*term.T, len(el))
	for i, v := range el {
		t, ok := v.(*term.T)
		if !ok {
			st.end("engine-error", fmt.Sprintf("sliceBytes: element %T", v))
		}
		b[i] = t
	}
	return b
}

// ---------------------------------------------------------------- maps

func (st *State) mapLookup(m *MapV, key Value) (int, bool) {
	// returns entry index
	var sb = stringsBuilderPool()
	if keyString(key, sb) {
		if m.NSym == 0 {
			i, ok := m.Idx[sb.String()]
			return i, ok
		}
		if i, ok := m.Idx[sb.String()]; ok {
			return i, true
		}
		// compare with symbolic-key entries
		for i := range m.Entries {
			e := &m.Entries[i]
			if e.Del {
				continue
			}
			var kb = stringsBuilderPool()
			if keyString(e.K, kb) {
				continue // concrete and different (else found in Idx)
			}
			if st.Branch(Equal(e.K, key)) {
				return i, true
			}
		}
		return 0, false
	}
	// symbolic key: compare against every live entry
	for i := range m.Entries {
		e := &m.Entries[i]
		if e.Del {
			continue
		}
		if st.Branch(Equal(e.K, key)) {
			return i, true
		}
	}
	return 0, false
}

func (st *State) mapGet(mr MapRef, key Value) (Value, bool) {
	if mr.O == nil {
		return nil, false
	}
	st.guardCheck(mr, false)
	m := st.rd(mr.O).V.(*MapV)
	i, ok := st.mapLookup(m, key)
	if !ok {
		return nil, false
	}
	return CopyVal(m.Entries[i].V), true
}

func (st *State) mapSet(mr MapRef, key, val Value) {
	if mr.O == nil {
		st.throwRuntime("assignment to entry in nil map")
	}
	st.guardCheck(mr, true)
	// lookup first (may fork) on the readable version, then write
	m := st.rd(mr.O).V.(*MapV)
	i, ok := st.mapLookup(m, key)
	m = st.wr(mr.O).V.(*MapV)
	if ok {
		m.Entries[i].V = CopyVal(val)
		return
	}
	m.Entries = append(m.Entries, mapEntry{K: CopyVal(key), V: CopyVal(val)})
	m.N++
	sb := stringsBuilderPool()
	if keyString(key, sb) {
		m.Idx[sb.String()] = len(m.Entries) - 1
	} else {
		m.NSym++
	}
}

func (st *State) mapDelete(mr MapRef, key Value) {
	if mr.O == nil {
		return
	}
	st.guardCheck(mr, true)
	m := st.rd(mr.O).V.(*MapV)
	i, ok := st.mapLookup(m, key)
	if !ok {
		return
	}
	m = st.wr(mr.O).V.(*MapV)
	e := &m.Entries[i]
	sb := stringsBuilderPool()
	if keyString(e.K, sb) {
		delete(m.Idx, sb.String())
	} else {
		m.NSym--
	}
	e.Del = true
	e.K, e.V = nil, nil
	m.N--
}

func (st *State) newMap(t types.Type) MapRef {
	return MapRef{O: st.newObj(&MapV{Idx: map[string]int{}}, t)}
}
