package vm

type engineCrash struct {
	Msg   string
	Stack string
	Fn    string
}
