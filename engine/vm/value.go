package vm

import (
	"fmt"
	"go/types"
	"strings"

	"golang.org/x/tools/go/ssa"

	"symgo/term"
)

// Value is one of:
//
//	*term.T    bool / integer scalar (possibly symbolic)
//	Float      concrete float
//	Str        string (bytes possibly symbolic, length concrete)
//	*StructV   struct (by value; copied on load/store)
//	*ArrayV    array (by value; copied on load/store)
//	Ptr        pointer
//	Slice      slice
//	MapRef     map
//	ChanRef    channel
//	Iface      interface value
//	Tuple      multiple results
//	*ssa.Function, *Closure, *ssa.Builtin, NilFunc   function values
//	*MapIter, *StrIter    range iterators
//	Poison     result of an unsupported operation executed during package init
type Value interface{}

type Float struct {
	V    float64
	Bits int
}

type Complex struct {
	V    complex128
	Bits int
}

type Str struct {
	S string
	B []*term.T // non-nil: symbolic representation (len(B) is the length)
}

type StructV struct{ F []Value }
type ArrayV struct{ E []Value }

type PathElem struct {
	I      int
	Sym    *term.T // non-nil: symbolic absolute index (64-bit), ranging over [Lo,Hi)
	Lo, Hi int
}

type Obj struct {
	ID     int
	V      Value
	Frozen bool
	Typ    types.Type
	Tag    string
}

type Ptr struct {
	O    *Obj
	Path []PathElem
	// Fn is set for pointers to functions' code (never); unused.
}

type Slice struct {
	Arr           Ptr // pointer to the backing *ArrayV
	Off, Len, Cap int
}

type MapRef struct{ O *Obj }
type ChanRef struct{ O *Obj }

type Iface struct {
	T types.Type
	V Value
}

type Tuple []Value

type Closure struct {
	Fn  *ssa.Function
	Env []Value
}

type NilFunc struct{}

type Poison struct{ Why string }

type mapEntry struct {
	K, V Value
	Del  bool
}

type MapV struct {
	Entries []mapEntry
	Idx     map[string]int // concrete keys
	NSym    int            // number of live entries with non-concrete keys
	N       int            // live entries
}

type ChanV struct {
	Buf    []Value
	Cap    int
	Closed bool
}

type MapIter struct {
	Keys []Value
	Vals []Value
	I    int
}

type StrIter struct {
	S Str
	I int
}

// ---------------------------------------------------------------- strings

func MkStr(s string) Str { return Str{S: s} }

func (s Str) Len() int {
	if s.B != nil {
		return len(s.B)
	}
	return len(s.S)
}

func (s Str) Concrete() bool { return s.B == nil }

func (s Str) At(i int) *term.T {
	if s.B != nil {
		return s.B[i]
	}
	return term.BV(8, uint64(s.S[i]))
}

func (s Str) Bytes() []*term.T {
	if s.B != nil {
		return s.B
	}
	b := make([]*term.T, len(s.S))
	for i := 0; i < len(s.S); i++ {
		b[i] = term.BV(8, uint64(s.S[i]))
	}
	return b
}

// StrFromBytes builds a string from byte terms, normalising to a concrete string when
// every byte is constant.
func StrFromBytes(b []*term.T) Str {
	allc := true
	for _, t := range b {
		if !t.IsConst() {
			allc = false
			break
		}
	}
	if allc {
		bs := make([]byte, len(b))
		for i, t := range b {
			bs[i] = byte(t.Val)
		}
		return Str{S: string(bs)}
	}
	nb := make([]*term.T, len(b))
	copy(nb, b)
	return Str{B: nb}
}

func (s Str) Slice(lo, hi int) Str {
	if s.B != nil {
		return StrFromBytes(s.B[lo:hi])
	}
	return Str{S: s.S[lo:hi]}
}

func StrConcat(a, b Str) Str {
	if a.B == nil && b.B == nil {
		return Str{S: a.S + b.S}
	}
	return StrFromBytes(append(append([]*term.T{}, a.Bytes()...), b.Bytes()...))
}

func StrEq(a, b Str) *term.T {
	if a.Len() != b.Len() {
		return term.False
	}
	if a.B == nil && b.B == nil {
		return term.Bool(a.S == b.S)
	}
	r := term.True
	for i := 0; i < a.Len(); i++ {
		r = term.MkAnd(r, term.MkEq(a.At(i), b.At(i)))
		if r.IsFalse() {
			return r
		}
	}
	return r
}

// StrLess builds a < b lexicographically.
func StrLess(a, b Str) *term.T {
	if a.B == nil && b.B == nil {
		return term.Bool(a.S < b.S)
	}
	n := a.Len()
	if b.Len() < n {
		n = b.Len()
	}
	// result if all first n equal:
	r := term.Bool(a.Len() < b.Len())
	for i := n - 1; i >= 0; i-- {
		x, y := a.At(i), b.At(i)
		r = term.MkIte(term.MkCmp(term.Ult, x, y), term.True, term.MkIte(term.MkEq(x, y), r, term.False))
	}
	return r
}

// ---------------------------------------------------------------- types

func under(t types.Type) types.Type { return t.Underlying() }

func basicWidth(b *types.Basic) int {
	switch b.Kind() {
	case types.Bool, types.UntypedBool:
		return 0
	case types.Int8, types.Uint8:
		return 8
	case types.Int16, types.Uint16:
		return 16
	case types.Int32, types.Uint32, types.UntypedRune:
		return 32
	case types.Int, types.Uint, types.Int64, types.Uint64, types.Uintptr, types.UntypedInt:
		return 64
	}
	return -1
}

func isSigned(t types.Type) bool {
	b, ok := under(t).(*types.Basic)
	if !ok {
		return false
	}
	return b.Info()&types.IsInteger != 0 && b.Info()&types.IsUnsigned == 0
}

func isIntegerT(t types.Type) bool {
	b, ok := under(t).(*types.Basic)
	return ok && b.Info()&types.IsInteger != 0
}

func isFloatT(t types.Type) bool {
	b, ok := under(t).(*types.Basic)
	return ok && b.Info()&types.IsFloat != 0
}

func isStringT(t types.Type) bool {
	b, ok := under(t).(*types.Basic)
	return ok && b.Info()&types.IsString != 0
}

func isBoolT(t types.Type) bool {
	b, ok := under(t).(*types.Basic)
	return ok && b.Info()&types.IsBoolean != 0
}

func intWidth(t types.Type) int {
	b, ok := under(t).(*types.Basic)
	if !ok {
		panic(fmt.Sprintf("intWidth: not basic: %v", t))
	}
	w := basicWidth(b)
	if w < 0 {
		panic(fmt.Sprintf("intWidth: %v", t))
	}
	return w
}

func floatBits(t types.Type) int {
	b := under(t).(*types.Basic)
	if b.Kind() == types.Float32 {
		return 32
	}
	return 64
}

// Zero returns the zero value of type t.
func Zero(t types.Type) Value {
	switch u := under(t).(type) {
	case *types.Basic:
		switch {
		case u.Kind() == types.UnsafePointer:
			return Ptr{}
		case u.Info()&types.IsBoolean != 0:
			return term.False
		case u.Info()&types.IsInteger != 0:
			return term.BV(basicWidth(u), 0)
		case u.Info()&types.IsFloat != 0:
			return Float{0, floatBits(u)}
		case u.Info()&types.IsString != 0:
			return Str{}
		case u.Info()&types.IsComplex != 0:
			return Complex{0, 128}
		case u.Kind() == types.UntypedNil:
			return Iface{}
		}
	case *types.Pointer:
		return Ptr{}
	case *types.Slice:
		return Slice{}
	case *types.Map:
		return MapRef{}
	case *types.Chan:
		return ChanRef{}
	case *types.Interface:
		return Iface{}
	case *types.Signature:
		return NilFunc{}
	case *types.Struct:
		s := &StructV{F: make([]Value, u.NumFields())}
		for i := range s.F {
			s.F[i] = Zero(u.Field(i).Type())
		}
		return s
	case *types.Array:
		n := int(u.Len())
		a := &ArrayV{E: make([]Value, n)}
		if n > 0 {
			z := Zero(u.Elem())
			switch z.(type) {
			case *StructV, *ArrayV:
				a.E[0] = z
				for i := 1; i < n; i++ {
					a.E[i] = CopyVal(z)
				}
			default:
				for i := range a.E {
					a.E[i] = z
				}
			}
		}
		return a
	case *types.Tuple:
		tp := make(Tuple, u.Len())
		for i := range tp {
			tp[i] = Zero(u.At(i).Type())
		}
		return tp
	}
	panic(fmt.Sprintf("Zero: unsupported type %v (%T)", t, under(t)))
}

// CopyVal copies aggregates (struct/array) deeply; everything else is immutable.
func CopyVal(v Value) Value {
	switch v := v.(type) {
	case *StructV:
		n := &StructV{F: make([]Value, len(v.F))}
		for i, f := range v.F {
			switch f.(type) {
			case *StructV, *ArrayV:
				n.F[i] = CopyVal(f)
			default:
				n.F[i] = f
			}
		}
		return n
	case *ArrayV:
		n := &ArrayV{E: make([]Value, len(v.E))}
		for i, f := range v.E {
			switch f.(type) {
			case *StructV, *ArrayV:
				n.E[i] = CopyVal(f)
			default:
				n.E[i] = f
			}
		}
		return n
	}
	return v
}

// ---------------------------------------------------------------- equality

func samePath(a, b []PathElem) *term.T {
	if len(a) != len(b) {
		return term.False
	}
	r := term.True
	for i := range a {
		switch {
		case a[i].Sym == nil && b[i].Sym == nil:
			if a[i].I != b[i].I {
				return term.False
			}
		default:
			x, y := a[i].Sym, b[i].Sym
			if x == nil {
				x = term.BV(64, uint64(a[i].I))
			}
			if y == nil {
				y = term.BV(64, uint64(b[i].I))
			}
			r = term.MkAnd(r, term.MkEq(x, y))
		}
	}
	return r
}

// Equal builds the term for Go's == on two values of the same static type.
func Equal(a, b Value) *term.T {
	switch x := a.(type) {
	case *term.T:
		y, ok := b.(*term.T)
		if !ok {
			panic(pathEnd{"unsupported", fmt.Sprintf("Equal: scalar vs %T", b)})
		}
		return term.MkEq(x, y)
	case OpaqueFloat:
		panic(pathEnd{"unsupported", "equality on an opaque float"})
	case Float:
		if _, isO := b.(OpaqueFloat); isO {
			panic(pathEnd{"unsupported", "equality on an opaque float"})
		}
		return term.Bool(x.V == b.(Float).V)
	case Complex:
		return term.Bool(x.V == b.(Complex).V)
	case Str:
		return StrEq(x, b.(Str))
	case Ptr:
		y, ok := b.(Ptr)
		if !ok {
			return term.False
		}
		if x.O != y.O {
			return term.False
		}
		if x.O == nil {
			return term.True
		}
		return samePath(x.Path, y.Path)
	case *StructV:
		y := b.(*StructV)
		r := term.True
		for i := range x.F {
			r = term.MkAnd(r, Equal(x.F[i], y.F[i]))
			if r.IsFalse() {
				return r
			}
		}
		return r
	case *ArrayV:
		y := b.(*ArrayV)
		r := term.True
		for i := range x.E {
			r = term.MkAnd(r, Equal(x.E[i], y.E[i]))
			if r.IsFalse() {
				return r
			}
		}
		return r
	case Iface:
		y := b.(Iface)
		if x.T == nil || y.T == nil {
			return term.Bool(x.T == nil && y.T == nil)
		}
		if !types.Identical(x.T, y.T) {
			return term.False
		}
		return Equal(x.V, y.V)
	case MapRef:
		y := b.(MapRef)
		return term.Bool(x.O == y.O)
	case ChanRef:
		y := b.(ChanRef)
		return term.Bool(x.O == y.O)
	case Slice:
		// only comparable to nil
		y := b.(Slice)
		return term.Bool(x.Arr.O == nil && y.Arr.O == nil)
	case NilFunc:
		_, ok := b.(NilFunc)
		return term.Bool(ok)
	case *ssa.Function, *Closure, *ssa.Builtin:
		_, ok := b.(NilFunc)
		return term.Bool(false && ok)
	}
	if p, ok := a.(Poison); ok {
		panic(pathEnd{"poison", "comparison of a poisoned value: " + p.Why})
	}
	panic(pathEnd{"unsupported", fmt.Sprintf("Equal: unsupported %T", a)})
}

// keyString returns a canonical string for a fully concrete comparable value.
func keyString(v Value, sb *strings.Builder) bool {
	switch x := v.(type) {
	case *term.T:
		if !x.IsConst() {
			return false
		}
		fmt.Fprintf(sb, "i%d:%d;", x.W, x.Val)
	case Float:
		fmt.Fprintf(sb, "f%v;", x.V)
	case Str:
		if x.B != nil {
			return false
		}
		fmt.Fprintf(sb, "s%d:%s;", len(x.S), x.S)
	case Ptr:
		if x.O == nil {
			sb.WriteString("pnil;")
			return true
		}
		fmt.Fprintf(sb, "p%d", x.O.ID)
		for _, e := range x.Path {
			if e.Sym != nil {
				return false
			}
			fmt.Fprintf(sb, ".%d", e.I)
		}
		sb.WriteByte(';')
	case *StructV:
		sb.WriteByte('{')
		for _, f := range x.F {
			if !keyString(f, sb) {
				return false
			}
		}
		sb.WriteByte('}')
	case *ArrayV:
		sb.WriteByte('[')
		for _, f := range x.E {
			if !keyString(f, sb) {
				return false
			}
		}
		sb.WriteByte(']')
	case Iface:
		if x.T == nil {
			sb.WriteString("inil;")
			return true
		}
		sb.WriteString("I(")
		sb.WriteString(types.TypeString(x.T, nil))
		sb.WriteByte(')')
		return keyString(x.V, sb)
	case MapRef:
		if x.O == nil {
			sb.WriteString("mnil;")
		} else {
			fmt.Fprintf(sb, "m%d;", x.O.ID)
		}
	case ChanRef:
		if x.O == nil {
			sb.WriteString("cnil;")
		} else {
			fmt.Fprintf(sb, "c%d;", x.O.ID)
		}
	default:
		return false
	}
	return true
}

// Describe renders a value for diagnostics.
func Describe(v Value) string {
	switch x := v.(type) {
	case nil:
		return "<nil>"
	case *term.T:
		if x.IsConst() {
			if x.W == 0 {
				return fmt.Sprint(x.Val == 1)
			}
			return fmt.Sprint(x.Signed())
		}
		return "<sym>"
	case Str:
		if x.B == nil {
			return fmt.Sprintf("%q", x.S)
		}
		return fmt.Sprintf("<symstr len %d>", len(x.B))
	case Float:
		return fmt.Sprint(x.V)
	case Iface:
		if x.T == nil {
			return "nil-iface"
		}
		return fmt.Sprintf("iface(%v: %s)", x.T, Describe(x.V))
	case Ptr:
		if x.O == nil {
			return "nil-ptr"
		}
		return fmt.Sprintf("ptr(obj%d %v)", x.O.ID, x.O.Typ)
	case *StructV:
		parts := []string{}
		for _, f := range x.F {
			parts = append(parts, Describe(f))
		}
		return "{" + strings.Join(parts, ",") + "}"
	}
	return fmt.Sprintf("%T", v)
}
