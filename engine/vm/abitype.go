package vm

import (
	"go/types"

	"golang.org/x/tools/go/ssa"
)

// internal/abi.TypeOf reinterprets an interface value as a (type, data) pair of raw
// pointers. The VM keeps dynamic types symbolically, so the function is modelled: it
// returns a pointer to a fresh abi.Type whose Equal field is non-nil exactly when the
// dynamic type is comparable (what reflectlite's Comparable(), used by context.WithValue and
// errors.Is, looks at). Every other field is zero; code depending on them is outside the
// model.
func registerAbiIntrinsics() {
	intrinsics["internal/abi.TypeOf"] = func(st *State, _ *frame, fn *ssa.Function, a []Value) Value {
		ifc, ok := a[0].(Iface)
		if !ok || ifc.T == nil {
			return Ptr{}
		}
		pt, ok := fn.Signature.Results().At(0).Type().(*types.Pointer)
		if !ok {
			st.unsupported("abi.TypeOf result type")
		}
		stt, ok := pt.Elem().Underlying().(*types.Struct)
		if !ok {
			st.unsupported("abi.Type is not a struct")
		}
		v := Zero(pt.Elem()).(*StructV)
		if types.Comparable(ifc.T) {
			for i := 0; i < stt.NumFields(); i++ {
				if stt.Field(i).Name() == "Equal" {
					v.F[i] = fn // any non-nil function value
				}
			}
		}
		return Ptr{O: st.newObj(v, pt.Elem())}
	}
}
