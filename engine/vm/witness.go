package vm

import (
	"symgo/term"
)

// noteBinding records x == const facts added to the path condition so that later
// conditions can be simplified without the solver.
func (st *State) noteBinding(c *term.T) {
	switch c.Op {
	case term.Eq:
		a, b := c.Args[0], c.Args[1]
		if a.Op == term.Const {
			a, b = b, a
		}
		if a.Op == term.Var && b.Op == term.Const {
			if st.bind == nil {
				st.bind = map[string]*term.T{}
			}
			st.bind[a.Name] = b
		}
	case term.Var:
		if c.W == 0 {
			if st.bind == nil {
				st.bind = map[string]*term.T{}
			}
			st.bind[c.Name] = term.True
		}
	case term.Not:
		if v := c.Args[0]; v.Op == term.Var {
			if st.bind == nil {
				st.bind = map[string]*term.T{}
			}
			st.bind[v.Name] = term.False
		}
	case term.And:
		st.noteBinding(c.Args[0])
		st.noteBinding(c.Args[1])
	}
}

// simp simplifies a condition under the recorded bindings.
func (st *State) simp(c *term.T) *term.T {
	if len(st.bind) == 0 || c.IsConst() {
		return c
	}
	return term.Subst(c, st.bind)
}

func mask64(w int) uint64 {
	if w >= 64 || w == 0 {
		if w == 0 {
			return 1
		}
		return ^uint64(0)
	}
	return (uint64(1) << uint(w)) - 1
}

// guess tries to find a model of pc ∧ cond by perturbing the current model: each
// variable of cond is set to constants occurring in cond (and neighbours). Every
// candidate is verified by evaluating cond and the whole path condition, so a returned
// model is a genuine witness.
func (st *State) guess(cond *term.T) map[string]uint64 {
	if st.model == nil {
		return nil
	}
	consts := map[uint64]bool{}
	vars := map[string]int{}
	term.ConstsAndVars(cond, consts, vars)
	if len(vars) == 0 || len(vars) > 4 || len(consts) > 24 {
		return nil
	}
	cands := make([]uint64, 0, 3*len(consts)+4)
	for k := range consts {
		cands = append(cands, k, k+1, k-1)
	}
	cands = append(cands, 0, 1, 0x80, 0xff)
	tries := 0
	for name, w := range vars {
		if _, bound := st.bind[name]; bound {
			continue
		}
		old, had := st.model[name]
		for _, k := range cands {
			k &= mask64(w)
			if had && k == old {
				continue
			}
			tries++
			if tries > 160 {
				st.model[name] = old
				return nil
			}
			st.model[name] = k
			if v, ok := term.Eval(cond, st.model); !ok || v != 1 {
				continue
			}
			good := true
			for i := len(st.pc) - 1; i >= 0; i-- {
				if v, ok := term.Eval(st.pc[i].T, st.model); !ok || v != 1 {
					good = false
					break
				}
			}
			if good {
				m := make(map[string]uint64, len(st.model))
				for kk, vv := range st.model {
					m[kk] = vv
				}
				st.model[name] = old
				if !had {
					delete(st.model, name)
				}
				st.w.guessHits++
				return m
			}
		}
		if had {
			st.model[name] = old
		} else {
			delete(st.model, name)
		}
	}
	return nil
}
