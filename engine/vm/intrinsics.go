package vm

import (
	"fmt"
	"go/types"
	"math"
	"strings"

	"golang.org/x/tools/go/ssa"

	"symgo/term"
)

type intrinsic func(st *State, caller *frame, fn *ssa.Function, args []Value) Value

var intrinsics map[string]intrinsic

func i64(v int64) *term.T { return term.BV(64, uint64(v)) }

func (st *State) strOrBytes(v Value) []*term.T {
	switch x := v.(type) {
	case Str:
		return x.Bytes()
	case Slice:
		return st.sliceBytes(x)
	}
	st.end("engine-error", fmt.Sprintf("strOrBytes: %T", v))
	return nil
}

func allConst(b []*term.T) bool {
	for _, t := range b {
		if !t.IsConst() {
			return false
		}
	}
	return true
}

func constBytes(b []*term.T) []byte {
	r := make([]byte, len(b))
	for i, t := range b {
		r[i] = byte(t.Val)
	}
	return r
}

func indexByteTerm(b []*term.T, c *term.T) *term.T {
	r := i64(-1)
	for i := len(b) - 1; i >= 0; i-- {
		r = term.MkIte(term.MkEq(b[i], c), i64(int64(i)), r)
	}
	return r
}

func lastIndexByteTerm(b []*term.T, c *term.T) *term.T {
	r := i64(-1)
	for i := 0; i < len(b); i++ {
		r = term.MkIte(term.MkEq(b[i], c), i64(int64(i)), r)
	}
	return r
}

func bytesEqTerm(a, b []*term.T) *term.T {
	if len(a) != len(b) {
		return term.False
	}
	r := term.True
	for i := range a {
		r = term.MkAnd(r, term.MkEq(a[i], b[i]))
		if r.IsFalse() {
			return r
		}
	}
	return r
}

func indexTerm(a, b []*term.T) *term.T {
	if len(b) == 0 {
		return i64(0)
	}
	r := i64(-1)
	for i := len(a) - len(b); i >= 0; i-- {
		r = term.MkIte(bytesEqTerm(a[i:i+len(b)], b), i64(int64(i)), r)
	}
	return r
}

func compareTerm(a, b []*term.T) *term.T {
	n := len(a)
	if len(b) < n {
		n = len(b)
	}
	var r *term.T
	switch {
	case len(a) < len(b):
		r = i64(-1)
	case len(a) > len(b):
		r = i64(1)
	default:
		r = i64(0)
	}
	for i := n - 1; i >= 0; i-- {
		r = term.MkIte(term.MkCmp(term.Ult, a[i], b[i]), i64(-1), term.MkIte(term.MkEq(a[i], b[i]), r, i64(1)))
	}
	return r
}

func countTerm(b []*term.T, c *term.T) *term.T {
	r := i64(0)
	for _, x := range b {
		r = term.MkBin(term.Add, r, term.MkIte(term.MkEq(x, c), i64(1), i64(0)))
	}
	return r
}

func (st *State) errorString(msg string) Value {
	o := st.newObj(&StructV{F: []Value{Str{S: msg}}}, st.vm.errString)
	return Iface{T: st.vm.errString, V: Ptr{O: o}}
}

func ptrKey(p Ptr) string {
	sb := &strings.Builder{}
	keyString(p, sb)
	return sb.String()
}

// atomic cells are ordinary memory in a sequential VM.
func atomicLoad(st *State, _ *frame, _ *ssa.Function, a []Value) Value {
	st.yield()
	return st.Load(a[0].(Ptr))
}
func atomicStore(st *State, _ *frame, _ *ssa.Function, a []Value) Value {
	st.yield()
	st.Store(a[0].(Ptr), a[1])
	st.progress()
	return nil
}
func atomicAdd(st *State, _ *frame, _ *ssa.Function, a []Value) Value {
	st.yield()
	defer st.progress()
	p := a[0].(Ptr)
	n := term.MkBin(term.Add, st.Load(p).(*term.T), a[1].(*term.T))
	st.Store(p, n)
	return n
}
func atomicSwap(st *State, _ *frame, _ *ssa.Function, a []Value) Value {
	st.yield()
	defer st.progress()
	p := a[0].(Ptr)
	old := st.Load(p)
	st.Store(p, a[1])
	return old
}
func atomicCAS(st *State, _ *frame, _ *ssa.Function, a []Value) Value {
	st.yield()
	defer st.progress()
	p := a[0].(Ptr)
	old := st.Load(p)
	if st.Branch(Equal(old, a[1])) {
		st.Store(p, a[2])
		return term.True
	}
	return term.False
}
func atomicAnd(st *State, _ *frame, _ *ssa.Function, a []Value) Value {
	p := a[0].(Ptr)
	old := st.Load(p).(*term.T)
	st.Store(p, term.MkBin(term.BAnd, old, a[1].(*term.T)))
	return old
}
func atomicOr(st *State, _ *frame, _ *ssa.Function, a []Value) Value {
	p := a[0].(Ptr)
	old := st.Load(p).(*term.T)
	st.Store(p, term.MkBin(term.BOr, old, a[1].(*term.T)))
	return old
}

func nop(st *State, _ *frame, _ *ssa.Function, a []Value) Value { return nil }

// lock table -------------------------------------------------------------

func (st *State) lockState(p Ptr) (string, int) {
	k := ptrKey(p)
	return k, st.locks2()[k]
}

func (st *State) locks2() map[string]int {
	if st.lockTab == nil {
		st.lockTab = map[string]int{}
	}
	return st.lockTab
}

func init() {
	intrinsics = map[string]intrinsic{
		"internal/bytealg.IndexByte": func(st *State, _ *frame, _ *ssa.Function, a []Value) Value {
			return indexByteTerm(st.strOrBytes(a[0]), asTerm(st, a[1]))
		},
		"internal/bytealg.IndexByteString": func(st *State, _ *frame, _ *ssa.Function, a []Value) Value {
			return indexByteTerm(st.strOrBytes(a[0]), asTerm(st, a[1]))
		},
		"internal/bytealg.LastIndexByte": func(st *State, _ *frame, _ *ssa.Function, a []Value) Value {
			return lastIndexByteTerm(st.strOrBytes(a[0]), asTerm(st, a[1]))
		},
		"internal/bytealg.LastIndexByteString": func(st *State, _ *frame, _ *ssa.Function, a []Value) Value {
			return lastIndexByteTerm(st.strOrBytes(a[0]), asTerm(st, a[1]))
		},
		"internal/bytealg.Count": func(st *State, _ *frame, _ *ssa.Function, a []Value) Value {
			return countTerm(st.strOrBytes(a[0]), asTerm(st, a[1]))
		},
		"internal/bytealg.CountString": func(st *State, _ *frame, _ *ssa.Function, a []Value) Value {
			return countTerm(st.strOrBytes(a[0]), asTerm(st, a[1]))
		},
		"internal/bytealg.Equal": func(st *State, _ *frame, _ *ssa.Function, a []Value) Value {
			return bytesEqTerm(st.strOrBytes(a[0]), st.strOrBytes(a[1]))
		},
		"internal/bytealg.Compare": func(st *State, _ *frame, _ *ssa.Function, a []Value) Value {
			return compareTerm(st.strOrBytes(a[0]), st.strOrBytes(a[1]))
		},
		"internal/bytealg.Index": func(st *State, _ *frame, _ *ssa.Function, a []Value) Value {
			return indexTerm(st.strOrBytes(a[0]), st.strOrBytes(a[1]))
		},
		"internal/bytealg.IndexString": func(st *State, _ *frame, _ *ssa.Function, a []Value) Value {
			return indexTerm(st.strOrBytes(a[0]), st.strOrBytes(a[1]))
		},
		"internal/bytealg.MakeNoZero": func(st *State, _ *frame, _ *ssa.Function, a []Value) Value {
			n := st.asInt(a[0], 0, 1<<20)
			return st.makeSlice(types.Typ[types.Byte], int(n), int(n))
		},
		"strings.Index": func(st *State, _ *frame, _ *ssa.Function, a []Value) Value {
			return indexTerm(st.strOrBytes(a[0]), st.strOrBytes(a[1]))
		},
		"bytes.Index": func(st *State, _ *frame, _ *ssa.Function, a []Value) Value {
			return indexTerm(st.strOrBytes(a[0]), st.strOrBytes(a[1]))
		},
		"strings.Compare": func(st *State, _ *frame, _ *ssa.Function, a []Value) Value {
			return compareTerm(st.strOrBytes(a[0]), st.strOrBytes(a[1]))
		},
		"internal/stringslite.Index": func(st *State, _ *frame, _ *ssa.Function, a []Value) Value {
			return indexTerm(st.strOrBytes(a[0]), st.strOrBytes(a[1]))
		},
		"internal/abi.NoEscape": func(st *State, _ *frame, _ *ssa.Function, a []Value) Value { return a[0] },
		"internal/abi.Escape":   nil, // generic; handled by genericIntrinsic
		"runtime.KeepAlive":     nop,
		"runtime.Gosched":       nop,
		"runtime.GC":            nop,
		"runtime.GOMAXPROCS":    func(st *State, _ *frame, _ *ssa.Function, a []Value) Value { return i64(1) },
		"runtime.NumCPU":        func(st *State, _ *frame, _ *ssa.Function, a []Value) Value { return i64(1) },
		"runtime.NumGoroutine":  func(st *State, _ *frame, _ *ssa.Function, a []Value) Value { return i64(1) },
		"runtime.Callers":       func(st *State, _ *frame, _ *ssa.Function, a []Value) Value { return i64(0) },
		"runtime.Caller": func(st *State, _ *frame, _ *ssa.Function, a []Value) Value {
			return Tuple{term.BV(64, 0), Str{S: "?"}, i64(0), term.False}
		},
		"runtime/debug.Stack": func(st *State, _ *frame, _ *ssa.Function, a []Value) Value {
			// shaped like a real trace (header + frame pairs) for code that trims frames
			return st.bytesToSlice(Str{S: "goroutine 1 [running]:\nruntime/debug.Stack()\n\t<vm>\nsymgo.frame1()\n\t<vm>\nsymgo.frame2()\n\t<vm>\nsymgo.frame3()\n\t<vm>\n"}.Bytes())
		},
		"runtime.SetFinalizer": nop,
		"runtime.Goexit": func(st *State, _ *frame, _ *ssa.Function, a []Value) Value {
			if st.sch.on && st.sch.cur != 0 {
				panic(goexitUnwind{})
			}
			st.end("goexit", "")
			return nil
		},
		"os.Exit": func(st *State, _ *frame, _ *ssa.Function, a []Value) Value {
			st.end("exit", "os.Exit called")
			return nil
		},
		"math.Float64bits": func(st *State, _ *frame, _ *ssa.Function, a []Value) Value {
			if _, ok := a[0].(OpaqueFloat); ok {
				if st.concrete != nil {
					st.unsupported("bits of an opaque float in a concrete run")
				}
				return st.newAux(64) // unknown bit pattern: unconstrained
			}
			return term.BV(64, math.Float64bits(a[0].(Float).V))
		},
		"math.Float64frombits": func(st *State, _ *frame, _ *ssa.Function, a []Value) Value {
			t := asTerm(st, a[0])
			if !t.IsConst() {
				// a float assembled from symbolic bits: its value is opaque (any later need
				// for the value ends the path as unsupported)
				return OpaqueFloat{64}
			}
			return Float{math.Float64frombits(t.Val), 64}
		},
		"math.Float32bits": func(st *State, _ *frame, _ *ssa.Function, a []Value) Value {
			return term.BV(32, uint64(math.Float32bits(float32(a[0].(Float).V))))
		},
		"math.Float32frombits": func(st *State, _ *frame, _ *ssa.Function, a []Value) Value {
			t := asTerm(st, a[0])
			if !t.IsConst() {
				st.unsupported("symbolic Float32frombits")
			}
			return Float{float64(math.Float32frombits(uint32(t.Val))), 32}
		},
		"math.archFloor": func(st *State, _ *frame, _ *ssa.Function, a []Value) Value { return Float{math.Floor(a[0].(Float).V), 64} },
		"math.archCeil":  func(st *State, _ *frame, _ *ssa.Function, a []Value) Value { return Float{math.Ceil(a[0].(Float).V), 64} },
		"math.archTrunc": func(st *State, _ *frame, _ *ssa.Function, a []Value) Value { return Float{math.Trunc(a[0].(Float).V), 64} },
		"math.archSqrt":  func(st *State, _ *frame, _ *ssa.Function, a []Value) Value { return Float{math.Sqrt(a[0].(Float).V), 64} },
		"math.sqrt":      func(st *State, _ *frame, _ *ssa.Function, a []Value) Value { return Float{math.Sqrt(a[0].(Float).V), 64} },
		"math.Sqrt":      func(st *State, _ *frame, _ *ssa.Function, a []Value) Value { return Float{math.Sqrt(a[0].(Float).V), 64} },
		"math.FMA": func(st *State, _ *frame, _ *ssa.Function, a []Value) Value {
			return Float{math.FMA(a[0].(Float).V, a[1].(Float).V, a[2].(Float).V), 64}
		},

		// sync --------------------------------------------------------------
		"(*sync.Mutex).Lock": func(st *State, _ *frame, _ *ssa.Function, a []Value) Value {
			st.yield()
			k, s := st.lockState(a[0].(Ptr))
			for s != 0 {
				if !st.block("Mutex.Lock") {
					st.end("blocked", "Lock of a mutex already held (self-deadlock in sequential execution)")
				}
				k, s = st.lockState(a[0].(Ptr))
			}
			st.locks2()[k] = -1
			return nil
		},
		"(*sync.Mutex).TryLock": func(st *State, _ *frame, _ *ssa.Function, a []Value) Value {
			k, s := st.lockState(a[0].(Ptr))
			if s != 0 {
				return term.False
			}
			st.locks2()[k] = -1
			return term.True
		},
		"(*sync.Mutex).Unlock": func(st *State, _ *frame, _ *ssa.Function, a []Value) Value {
			k, s := st.lockState(a[0].(Ptr))
			if s != -1 {
				st.throwFatal("sync: unlock of unlocked mutex")
			}
			st.locks2()[k] = 0
			st.progress()
			st.yield() // (after a release too: what follows may race with the next holder)
			return nil
		},
		"(*sync.RWMutex).Lock": func(st *State, _ *frame, _ *ssa.Function, a []Value) Value {
			st.yield()
			k, s := st.lockState(a[0].(Ptr))
			for s != 0 {
				if !st.block("RWMutex.Lock") {
					st.end("blocked", "Lock of an RWMutex already held")
				}
				k, s = st.lockState(a[0].(Ptr))
			}
			st.locks2()[k] = -1
			return nil
		},
		"(*sync.RWMutex).Unlock": func(st *State, _ *frame, _ *ssa.Function, a []Value) Value {
			k, s := st.lockState(a[0].(Ptr))
			if s != -1 {
				st.throwFatal("sync: Unlock of unlocked RWMutex")
			}
			st.locks2()[k] = 0
			st.progress()
			st.yield() // (after a release too: what follows may race with the next holder)
			return nil
		},
		"(*sync.RWMutex).RLock": func(st *State, _ *frame, _ *ssa.Function, a []Value) Value {
			st.yield()
			k, s := st.lockState(a[0].(Ptr))
			for s == -1 {
				if !st.block("RWMutex.RLock") {
					st.end("blocked", "RLock of a write-locked RWMutex")
				}
				k, s = st.lockState(a[0].(Ptr))
			}
			st.locks2()[k] = s + 1
			return nil
		},
		"(*sync.RWMutex).RUnlock": func(st *State, _ *frame, _ *ssa.Function, a []Value) Value {
			k, s := st.lockState(a[0].(Ptr))
			if s <= 0 {
				st.throwFatal("sync: RUnlock of unlocked RWMutex")
			}
			st.locks2()[k] = s - 1
			st.progress()
			st.yield() // (after a release too: what follows may race with the next holder)
			return nil
		},
		"(*sync.Once).Do": func(st *State, caller *frame, _ *ssa.Function, a []Value) Value {
			p := a[0].(Ptr)
			k := "once:" + ptrKey(p)
			st.yield()
			for st.locks2()[k] == 1 && st.block("Once.Do in progress") {
			}
			if st.locks2()[k] != 0 {
				return nil
			}
			st.locks2()[k] = 1
			// (like the real Once, a panicking f still counts as done)
			defer func() { st.locks2()[k] = 2; st.progress() }()
			st.call(a[1], nil, caller)
			return nil
		},
		"(*sync.Pool).Get": func(st *State, caller *frame, fn *ssa.Function, a []Value) Value {
			p := a[0].(Ptr)
			pool := st.Load(p).(*StructV)
			// the New field is the last field of sync.Pool
			newf := pool.F[len(pool.F)-1]
			if _, isNil := newf.(NilFunc); isNil {
				return Iface{}
			}
			return st.call(newf, nil, caller)
		},
		"(*sync.Pool).Put":      nop,
		"(*sync.WaitGroup).Add": func(st *State, _ *frame, _ *ssa.Function, a []Value) Value {
			k := "wg:" + ptrKey(a[0].(Ptr))
			st.locks2()[k] += int(st.asInt(a[1], -64, 64))
			return nil
		},
		"(*sync.WaitGroup).Done": func(st *State, _ *frame, _ *ssa.Function, a []Value) Value {
			k := "wg:" + ptrKey(a[0].(Ptr))
			st.locks2()[k]--
			st.progress()
			return nil
		},
		"(*sync.WaitGroup).Wait": func(st *State, _ *frame, _ *ssa.Function, a []Value) Value {
			k := "wg:" + ptrKey(a[0].(Ptr))
			st.yield()
			for st.locks2()[k] > 0 {
				if st.block("WaitGroup.Wait") {
					continue
				}
				if !st.runPending() {
					st.end("blocked", "WaitGroup.Wait with pending count")
				}
			}
			return nil
		},

		"sync/atomic.LoadInt32": atomicLoad, "sync/atomic.LoadInt64": atomicLoad, "sync/atomic.LoadUint32": atomicLoad,
		"sync/atomic.LoadUint64": atomicLoad, "sync/atomic.LoadUintptr": atomicLoad, "sync/atomic.LoadPointer": atomicLoad,
		"sync/atomic.StoreInt32": atomicStore, "sync/atomic.StoreInt64": atomicStore, "sync/atomic.StoreUint32": atomicStore,
		"sync/atomic.StoreUint64": atomicStore, "sync/atomic.StoreUintptr": atomicStore, "sync/atomic.StorePointer": atomicStore,
		"sync/atomic.AddInt32": atomicAdd, "sync/atomic.AddInt64": atomicAdd, "sync/atomic.AddUint32": atomicAdd,
		"sync/atomic.AddUint64": atomicAdd, "sync/atomic.AddUintptr": atomicAdd,
		"sync/atomic.SwapInt32": atomicSwap, "sync/atomic.SwapInt64": atomicSwap, "sync/atomic.SwapUint32": atomicSwap,
		"sync/atomic.SwapUint64": atomicSwap, "sync/atomic.SwapUintptr": atomicSwap, "sync/atomic.SwapPointer": atomicSwap,
		"sync/atomic.CompareAndSwapInt32": atomicCAS, "sync/atomic.CompareAndSwapInt64": atomicCAS,
		"sync/atomic.CompareAndSwapUint32": atomicCAS, "sync/atomic.CompareAndSwapUint64": atomicCAS,
		"sync/atomic.CompareAndSwapUintptr": atomicCAS, "sync/atomic.CompareAndSwapPointer": atomicCAS,
		"sync/atomic.AndInt32": atomicAnd, "sync/atomic.AndUint32": atomicAnd, "sync/atomic.AndInt64": atomicAnd, "sync/atomic.AndUint64": atomicAnd,
		"sync/atomic.OrInt32": atomicOr, "sync/atomic.OrUint32": atomicOr, "sync/atomic.OrInt64": atomicOr, "sync/atomic.OrUint64": atomicOr,

		// errors ---------------------------------------------------------------
		"errors.Is": func(st *State, caller *frame, _ *ssa.Function, a []Value) Value {
			return st.errorsIs(a[0].(Iface), a[1].(Iface), caller, 0)
		},
		"errors.As": func(st *State, caller *frame, _ *ssa.Function, a []Value) Value {
			return st.errorsAs(a[0].(Iface), a[1].(Iface), caller, 0)
		},

		// fmt ------------------------------------------------------------------
		"fmt.Sprintf": func(st *State, caller *frame, _ *ssa.Function, a []Value) Value {
			return Str{S: st.format(caller, a[0].(Str), a[1])}
		},
		"fmt.Sprint": func(st *State, caller *frame, _ *ssa.Function, a []Value) Value {
			return Str{S: st.format(caller, Str{S: "\x00sprint"}, a[0])}
		},
		"fmt.Sprintln": func(st *State, caller *frame, _ *ssa.Function, a []Value) Value {
			return Str{S: st.format(caller, Str{S: "\x00sprint"}, a[0]) + "\n"}
		},
		"fmt.Errorf": func(st *State, caller *frame, _ *ssa.Function, a []Value) Value {
			return st.fmtErrorf(caller, a[0].(Str), a[1])
		},
		"fmt.Fprintf": func(st *State, caller *frame, _ *ssa.Function, a []Value) Value {
			return Tuple{i64(0), Iface{}}
		},
		"fmt.Fprint": func(st *State, caller *frame, _ *ssa.Function, a []Value) Value {
			return Tuple{i64(0), Iface{}}
		},
		"fmt.Fprintln": func(st *State, caller *frame, _ *ssa.Function, a []Value) Value {
			return Tuple{i64(0), Iface{}}
		},
		"fmt.Printf":  func(st *State, caller *frame, _ *ssa.Function, a []Value) Value { return Tuple{i64(0), Iface{}} },
		"fmt.Println": func(st *State, caller *frame, _ *ssa.Function, a []Value) Value { return Tuple{i64(0), Iface{}} },
		"fmt.Print":   func(st *State, caller *frame, _ *ssa.Function, a []Value) Value { return Tuple{i64(0), Iface{}} },
		"fmt.Appendf": func(st *State, caller *frame, _ *ssa.Function, a []Value) Value {
			s := st.format(caller, a[1].(Str), a[2])
			return st.callBuiltinAppendBytes(a[0].(Slice), Str{S: s})
		},

		"time.Now": func(st *State, _ *frame, fn *ssa.Function, a []Value) Value {
			return Zero(fn.Signature.Results().At(0).Type())
		},
		"time.Since": func(st *State, _ *frame, fn *ssa.Function, a []Value) Value { return i64(0) },
		"time.now":   func(st *State, _ *frame, fn *ssa.Function, a []Value) Value { return Tuple{i64(0), term.BV(32, 0), i64(0)} },
		"time.runtimeNano": func(st *State, _ *frame, fn *ssa.Function, a []Value) Value { return i64(0) },
	}
	delete(intrinsics, "internal/abi.Escape")
	registerFloatIntrinsics()
	registerSyncMapIntrinsics()
	registerAbiIntrinsics()
	registerAtomicValueIntrinsics()
}

func (st *State) throwFatal(msg string) {
	// fatal errors (unlock of unlocked mutex, ...) cannot be recovered in Go: end the path as a crash.
	st.end("fatal", msg)
}

func (st *State) callBuiltinAppendBytes(s Slice, x Str) Value {
	b := append(append([]*term.T{}, st.sliceBytes(s)...), x.Bytes()...)
	return st.bytesToSlice(b)
}

// genericIntrinsic handles body-less functions selected by name pattern.
func genericIntrinsic(name string) intrinsic {
	switch {
	case strings.HasPrefix(name, "internal/abi.Escape"):
		return func(st *State, _ *frame, _ *ssa.Function, a []Value) Value { return a[0] }
	}
	return nil
}

// ---------------------------------------------------------------- errors.Is / As

func (st *State) methodOf(t types.Type, name string) *ssa.Function {
	ms := st.vm.Prog.MethodSets.MethodSet(t)
	for i := 0; i < ms.Len(); i++ {
		sel := ms.At(i)
		if sel.Obj().Name() == name {
			return st.vm.Prog.MethodValue(sel)
		}
	}
	return nil
}

func (st *State) errorsIs(err, target Iface, caller *frame, depth int) Value {
	if depth > 20 {
		st.end("budget", "errors.Is unwrap depth")
	}
	if err.T == nil {
		return term.Bool(target.T == nil)
	}
	if target.T != nil && types.Comparable(target.T) {
		if st.Branch(Equal(err, target)) {
			return term.True
		}
	}
	if m := st.methodOf(err.T, "Is"); m != nil && m.Signature.Params().Len() == 1 && m.Signature.Results().Len() == 1 {
		r := st.call(m, []Value{err.V, target}, caller)
		if st.Branch(asTerm(st, r)) {
			return term.True
		}
	}
	if m := st.methodOf(err.T, "Unwrap"); m != nil && m.Signature.Params().Len() == 0 && m.Signature.Results().Len() == 1 {
		r := st.call(m, []Value{err.V}, caller)
		switch u := r.(type) {
		case Iface:
			if u.T == nil {
				return term.False
			}
			return st.errorsIs(u, target, caller, depth+1)
		case Slice:
			for _, e := range st.sliceElems(u) {
				if st.Branch(asTerm(st, st.errorsIs(e.(Iface), target, caller, depth+1))) {
					return term.True
				}
			}
		}
	}
	return term.False
}

func (st *State) errorsAs(err, target Iface, caller *frame, depth int) Value {
	if depth > 20 {
		st.end("budget", "errors.As unwrap depth")
	}
	if target.T == nil {
		st.throwRuntime("errors: target cannot be nil")
	}
	pt, ok := target.T.Underlying().(*types.Pointer)
	if !ok {
		st.throwRuntime("errors: target must be a non-nil pointer")
	}
	tp := target.V.(Ptr)
	if tp.O == nil {
		st.throwRuntime("errors: target must be a non-nil pointer")
	}
	want := pt.Elem()
	for err.T != nil {
		match := false
		if it, isI := want.Underlying().(*types.Interface); isI {
			match = types.Implements(err.T, it)
			if match {
				st.Store(tp, err)
				return term.True
			}
		} else if types.Identical(err.T, want) {
			st.Store(tp, err.V)
			return term.True
		}
		if m := st.methodOf(err.T, "As"); m != nil && m.Signature.Params().Len() == 1 {
			r := st.call(m, []Value{err.V, target}, caller)
			if st.Branch(asTerm(st, r)) {
				return term.True
			}
		}
		m := st.methodOf(err.T, "Unwrap")
		if m == nil || m.Signature.Params().Len() != 0 || m.Signature.Results().Len() != 1 {
			return term.False
		}
		r := st.call(m, []Value{err.V}, caller)
		switch u := r.(type) {
		case Iface:
			err = u
		case Slice:
			for _, e := range st.sliceElems(u) {
				if st.Branch(asTerm(st, st.errorsAs(e.(Iface), target, caller, depth+1))) {
					return term.True
				}
			}
			return term.False
		default:
			return term.False
		}
	}
	return term.False
}

// ---------------------------------------------------------------- fmt (opaque unless trivially concrete)

func (st *State) goArg(caller *frame, v Value) (interface{}, bool) {
	switch x := v.(type) {
	case Iface:
		if x.T == nil {
			return nil, true
		}
		// error / Stringer
		if p, isPtr := x.V.(Ptr); !isPtr || p.O != nil {
			for _, name := range []string{"Error", "String"} {
				if m := st.methodOf(x.T, name); m != nil && m.Signature.Params().Len() == 0 && m.Signature.Results().Len() == 1 && isStringT(m.Signature.Results().At(0).Type()) {
					if st.fmtDepth > 3 {
						return "<nested>", true
					}
					st.fmtDepth++
					r, okCall := st.callForFormatting(m, []Value{x.V}, caller)
					st.fmtDepth--
					if !okCall {
						return "<" + types.TypeString(x.T, func(p *types.Package) string { return p.Name() }) + ">", true
					}
					if s, ok := r.(Str); ok && s.B == nil {
						return s.S, true
					}
					return "<sym>", true
				}
			}
		}
		b, isBasic := x.T.Underlying().(*types.Basic)
		switch xv := x.V.(type) {
		case *term.T:
			if !xv.IsConst() {
				return "<sym>", true
			}
			if isBasic {
				switch {
				case b.Info()&types.IsBoolean != 0:
					return xv.Val == 1, true
				case b.Kind() == types.Int32:
					return rune(xv.Signed()), true
				case b.Kind() == types.Uint8:
					return byte(xv.Val), true
				case b.Info()&types.IsUnsigned != 0:
					return xv.Val, true
				default:
					return xv.Signed(), true
				}
			}
		case Str:
			if xv.B == nil {
				return xv.S, true
			}
			return "<sym>", true
		case Float:
			return xv.V, true
		case Slice:
			if bt, ok := x.T.Underlying().(*types.Slice); ok {
				if eb, ok := bt.Elem().Underlying().(*types.Basic); ok && eb.Kind() == types.Uint8 {
					bs := st.sliceBytes(xv)
					if allConst(bs) {
						return constBytes(bs), true
					}
				}
			}
		}
		return "<" + types.TypeString(x.T, func(p *types.Package) string { return p.Name() }) + ">", true
	}
	return nil, false
}

func (st *State) format(caller *frame, f Str, args Value) string {
	var goargs []interface{}
	if sl, ok := args.(Slice); ok {
		for _, e := range st.sliceElems(sl) {
			g, ok := st.goArg(caller, e)
			if !ok {
				g = "<?>"
			}
			goargs = append(goargs, g)
		}
	}
	if f.B != nil {
		return "<fmt>"
	}
	if f.S == "\x00sprint" {
		return fmt.Sprint(goargs...)
	}
	return fmt.Sprintf(strings.ReplaceAll(f.S, "%w", "%v"), goargs...)
}

func (st *State) fmtErrorf(caller *frame, f Str, args Value) Value {
	msg := st.format(caller, f, args)
	// %w wrapping: find the first error argument when the format has %w
	if f.B == nil && strings.Contains(f.S, "%w") {
		if sl, ok := args.(Slice); ok {
			// locate which arg index %w refers to: count verbs before it
			idx := 0
			s := f.S
			found := -1
			for i := 0; i < len(s); i++ {
				if s[i] != '%' {
					continue
				}
				i++
				for i < len(s) && strings.IndexByte("+-# 0123456789.", s[i]) >= 0 {
					i++
				}
				if i >= len(s) {
					break
				}
				if s[i] == '%' {
					continue
				}
				if s[i] == 'w' {
					found = idx
					break
				}
				idx++
			}
			els := st.sliceElems(sl)
			if found >= 0 && found < len(els) {
				if e, ok := els[found].(Iface); ok && e.T != nil {
					if fp := st.vm.Prog.ImportedPackage("fmt"); fp != nil {
						if wt := fp.Type("wrapError"); wt != nil {
							pt := types.NewPointer(wt.Type())
							o := st.newObj(&StructV{F: []Value{Str{S: msg}, e}}, wt.Type())
							return Iface{T: pt, V: Ptr{O: o}}
						}
					}
				}
			}
		}
	}
	return st.errorString(msg)
}
