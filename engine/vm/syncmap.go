package vm

import (
	"golang.org/x/tools/go/ssa"

	"symgo/term"
)

// Sequential model of sync.Map: an insertion-ordered association list per map object,
// kept in the per-path state (the VM is sequential, so "atomic" operations are plain
// operations). Keys are compared with Go's == ; a symbolic comparison forks the path.
type syncMapEntry struct{ k, v Value }

func (st *State) syncMapOf(p Ptr) *[]syncMapEntry {
	if st.syncMaps == nil {
		st.syncMaps = map[string]*[]syncMapEntry{}
	}
	k := ptrKey(p)
	m, ok := st.syncMaps[k]
	if !ok {
		m = &[]syncMapEntry{}
		st.syncMaps[k] = m
	}
	return m
}

func (st *State) syncMapFind(m *[]syncMapEntry, key Value) int {
	for i, e := range *m {
		if st.Branch(Equal(e.k, key)) {
			return i
		}
	}
	return -1
}

func registerSyncMapIntrinsics() {
	intrinsics["(*sync.Map).Load"] = func(st *State, _ *frame, _ *ssa.Function, a []Value) Value {
		m := st.syncMapOf(a[0].(Ptr))
		if i := st.syncMapFind(m, a[1]); i >= 0 {
			return Tuple{(*m)[i].v, term.True}
		}
		return Tuple{Iface{}, term.False}
	}
	intrinsics["(*sync.Map).Store"] = func(st *State, _ *frame, _ *ssa.Function, a []Value) Value {
		m := st.syncMapOf(a[0].(Ptr))
		if i := st.syncMapFind(m, a[1]); i >= 0 {
			(*m)[i].v = a[2]
			return nil
		}
		*m = append(*m, syncMapEntry{a[1], a[2]})
		return nil
	}
	intrinsics["(*sync.Map).LoadOrStore"] = func(st *State, _ *frame, _ *ssa.Function, a []Value) Value {
		m := st.syncMapOf(a[0].(Ptr))
		if i := st.syncMapFind(m, a[1]); i >= 0 {
			return Tuple{(*m)[i].v, term.True}
		}
		*m = append(*m, syncMapEntry{a[1], a[2]})
		return Tuple{a[2], term.False}
	}
	intrinsics["(*sync.Map).LoadAndDelete"] = func(st *State, _ *frame, _ *ssa.Function, a []Value) Value {
		m := st.syncMapOf(a[0].(Ptr))
		if i := st.syncMapFind(m, a[1]); i >= 0 {
			v := (*m)[i].v
			*m = append(append([]syncMapEntry{}, (*m)[:i]...), (*m)[i+1:]...)
			return Tuple{v, term.True}
		}
		return Tuple{Iface{}, term.False}
	}
	intrinsics["(*sync.Map).Delete"] = func(st *State, _ *frame, _ *ssa.Function, a []Value) Value {
		m := st.syncMapOf(a[0].(Ptr))
		if i := st.syncMapFind(m, a[1]); i >= 0 {
			*m = append(append([]syncMapEntry{}, (*m)[:i]...), (*m)[i+1:]...)
		}
		return nil
	}
	intrinsics["(*sync.Map).Swap"] = func(st *State, _ *frame, _ *ssa.Function, a []Value) Value {
		m := st.syncMapOf(a[0].(Ptr))
		if i := st.syncMapFind(m, a[1]); i >= 0 {
			old := (*m)[i].v
			(*m)[i].v = a[2]
			return Tuple{old, term.True}
		}
		*m = append(*m, syncMapEntry{a[1], a[2]})
		return Tuple{Iface{}, term.False}
	}
	intrinsics["(*sync.Map).CompareAndSwap"] = func(st *State, _ *frame, _ *ssa.Function, a []Value) Value {
		m := st.syncMapOf(a[0].(Ptr))
		if i := st.syncMapFind(m, a[1]); i >= 0 {
			if st.Branch(Equal((*m)[i].v, a[2])) {
				(*m)[i].v = a[3]
				return term.True
			}
		}
		return term.False
	}
	intrinsics["(*sync.Map).CompareAndDelete"] = func(st *State, _ *frame, _ *ssa.Function, a []Value) Value {
		m := st.syncMapOf(a[0].(Ptr))
		if i := st.syncMapFind(m, a[1]); i >= 0 {
			if st.Branch(Equal((*m)[i].v, a[2])) {
				*m = append(append([]syncMapEntry{}, (*m)[:i]...), (*m)[i+1:]...)
				return term.True
			}
		}
		return term.False
	}
	intrinsics["(*sync.Map).Clear"] = func(st *State, _ *frame, _ *ssa.Function, a []Value) Value {
		m := st.syncMapOf(a[0].(Ptr))
		*m = nil
		return nil
	}
	intrinsics["(*sync.Map).Range"] = func(st *State, caller *frame, _ *ssa.Function, a []Value) Value {
		m := st.syncMapOf(a[0].(Ptr))
		snap := append([]syncMapEntry{}, (*m)...)
		for _, e := range snap {
			r := st.call(a[1], []Value{e.k, e.v}, caller)
			if !st.Branch(asTerm(st, r)) {
				break
			}
		}
		return nil
	}
}
