package vm

import (
	"fmt"
	"go/token"
	"go/types"
	"os"
	"runtime/debug"
	"strings"

	"golang.org/x/tools/go/ssa"

	"symgo/term"
)

// VM holds everything shared by the paths one worker explores: the SSA program, the
// initialised global store (frozen base heap) and the intrinsic tables.
type VM struct {
	Prog      *ssa.Program
	globals   map[*ssa.Global]*Obj
	inited    map[*ssa.Package]bool
	initObjs  []*Obj
	objCtr    int
	fnInfos   map[*ssa.Function]*fnInfo
	uintptrs  map[*term.T]Ptr
	Replace   map[string]*ssa.Function // full function name -> harness replacement
	errString types.Type               // *errors.errorString
	funcCache map[string]*ssa.Function
	APIPath   string // import path of the harness API package
	Cfg       *Config
	fnCount   map[*ssa.Function]int
	initPoison map[*ssa.Package]string
}

type Config struct {
	MaxSteps   int
	MaxDepth   int
	TimeoutMs  int
	Solver     string
	Trace      bool
	OpaqueFmt  bool
	Tier       int
}

type fnInfo struct {
	fn    *ssa.Function
	idx   map[ssa.Value]int
	nregs int
	consts map[*ssa.Const]Value
}

type deferred struct {
	fn   Value
	args []Value
	tail *deferred
}

type frame struct {
	st        *State
	caller    *frame
	fn        *ssa.Function
	info      *fnInfo
	block     *ssa.BasicBlock
	prevBlock *ssa.BasicBlock
	regs      []Value
	defers    *deferred
	result    Value
	panicking bool
	goexit    bool
	panicVal  interface{} // targetPanic
	phitemps  []Value
	isPkgInit bool
	depthAtEntry int
}

func NewVM(prog *ssa.Program, cfg *Config) *VM {
	vm := &VM{
		Prog:      prog,
		globals:   map[*ssa.Global]*Obj{},
		inited:    map[*ssa.Package]bool{},
		fnInfos:   map[*ssa.Function]*fnInfo{},
		uintptrs:  map[*term.T]Ptr{},
		Replace:   map[string]*ssa.Function{},
		funcCache: map[string]*ssa.Function{},
		Cfg:       cfg,
		fnCount:   map[*ssa.Function]int{},
		initPoison: map[*ssa.Package]string{},
	}
	if p := prog.ImportedPackage("errors"); p != nil {
		vm.errString = types.NewPointer(p.Type("errorString").Type())
	}
	return vm
}

func (vm *VM) lookupFunc(pkg, name string) *ssa.Function {
	key := pkg + "." + name
	if f, ok := vm.funcCache[key]; ok {
		return f
	}
	var f *ssa.Function
	if p := vm.Prog.ImportedPackage(pkg); p != nil {
		f = p.Func(name)
	}
	vm.funcCache[key] = f
	return f
}

// runtimeError makes a panic value for a run-time error: an error whose dynamic type is
// *errors.errorString (so `r.(error)` works in recover handlers).
func (vm *VM) runtimeError(msg string) Value {
	if vm.errString == nil {
		return Iface{T: types.Typ[types.String], V: Str{S: "runtime error: " + msg}}
	}
	vm.objCtr++
	o := &Obj{ID: vm.objCtr, V: &StructV{F: []Value{Str{S: "runtime error: " + msg}}}, Typ: vm.errString, Tag: "runtime-error"}
	return Iface{T: vm.errString, V: Ptr{O: o}}
}

func (vm *VM) info(fn *ssa.Function) *fnInfo {
	if fi, ok := vm.fnInfos[fn]; ok {
		return fi
	}
	fi := &fnInfo{fn: fn, idx: map[ssa.Value]int{}, consts: map[*ssa.Const]Value{}}
	n := 0
	add := func(v ssa.Value) {
		fi.idx[v] = n
		n++
	}
	for _, p := range fn.Params {
		add(p)
	}
	for _, fv := range fn.FreeVars {
		add(fv)
	}
	for _, b := range fn.Blocks {
		for _, ins := range b.Instrs {
			if v, ok := ins.(ssa.Value); ok {
				add(v)
			}
		}
	}
	fi.nregs = n
	vm.fnInfos[fn] = fi
	return fi
}

func (fr *frame) get(key ssa.Value) Value {
	switch key := key.(type) {
	case nil:
		return nil
	case *ssa.Const:
		if v, ok := fr.info.consts[key]; ok {
			return v
		}
		v := fr.st.constValue(key)
		fr.info.consts[key] = v
		return v
	case *ssa.Function:
		return key
	case *ssa.Builtin:
		return key
	case *ssa.Global:
		return Ptr{O: fr.st.global(key)}
	}
	i, ok := fr.info.idx[key]
	if !ok {
		fr.st.end("engine-error", fmt.Sprintf("no register for %T %v in %v", key, key.Name(), fr.fn))
	}
	v := fr.regs[i]
	if v == nil {
		fr.st.end("engine-error", fmt.Sprintf("read of unset register %v in %v", key.Name(), fr.fn))
	}
	return v
}

func (fr *frame) set(key ssa.Value, v Value) {
	fr.regs[fr.info.idx[key]] = v
}

// global returns the storage object of a global, initialising its package lazily.
func (st *State) global(g *ssa.Global) *Obj {
	vm := st.vm
	if o, ok := vm.globals[g]; ok {
		if !vm.inited[g.Pkg] {
			st.initPackage(g.Pkg)
		}
		return o
	}
	// allocate all globals of the package
	pkg := g.Pkg
	for _, m := range pkg.Members {
		if gg, ok := m.(*ssa.Global); ok {
			vm.objCtr++
			o := &Obj{ID: vm.objCtr, V: Zero(gg.Type().(*types.Pointer).Elem()), Typ: gg.Type().(*types.Pointer).Elem(), Tag: gg.String()}
			vm.globals[gg] = o
			vm.initObjs = append(vm.initObjs, o)
		}
	}
	st.initPackage(pkg)
	o, ok := vm.globals[g]
	if !ok {
		st.end("engine-error", "global not allocated: "+g.String())
	}
	return o
}

func (st *State) initPackage(pkg *ssa.Package) {
	vm := st.vm
	if vm.inited[pkg] {
		return
	}
	vm.inited[pkg] = true
	// make sure globals exist
	for _, m := range pkg.Members {
		if gg, ok := m.(*ssa.Global); ok {
			if _, ok := vm.globals[gg]; !ok {
				vm.objCtr++
				o := &Obj{ID: vm.objCtr, V: Zero(gg.Type().(*types.Pointer).Elem()), Typ: gg.Type().(*types.Pointer).Elem(), Tag: gg.String()}
				vm.globals[gg] = o
				vm.initObjs = append(vm.initObjs, o)
			}
		}
	}
	initFn := pkg.Func("init")
	if initFn == nil || initFn.Blocks == nil {
		return
	}
	// Run the init in init mode: writes go to the base heap, symbolic machinery off.
	saved := *st
	st.inInit++
	savedSteps := st.steps
	func() {
		defer func() {
			if r := recover(); r != nil {
				switch e := r.(type) {
				case pathEnd:
					vm.initPoison[pkg] = e.Status + ": " + e.Detail
				case targetPanic:
					vm.initPoison[pkg] = "panic in init: " + Describe(e.V)
				default:
					panic(r)
				}
			}
		}()
		st.call(initFn, nil, nil)
	}()
	if why, bad := vm.initPoison[pkg]; bad && os.Getenv("SYMGO_DEBUG_INIT") != "" {
		fmt.Fprintf(os.Stderr, "init of %s aborted: %s\n", pkg.Pkg.Path(), why)
	}
	st.inInit--
	st.steps = savedSteps
	st.curFn = saved.curFn
	if st.inInit == 0 {
		for _, o := range vm.initObjs {
			o.Frozen = true
		}
		vm.initObjs = vm.initObjs[:0]
	}
}

// ---------------------------------------------------------------- calls

func (st *State) call(fn Value, args []Value, caller *frame) Value {
	switch f := fn.(type) {
	case *ssa.Function:
		return st.callSSA(f, args, nil, caller)
	case *Closure:
		return st.callSSA(f.Fn, args, f.Env, caller)
	case *ssa.Builtin:
		return st.callBuiltin(f, args, caller)
	case NilFunc:
		st.nilDeref()
	case Poison:
		if st.inInit > 0 {
			return Poison{f.Why}
		}
		st.end("poison", f.Why)
	}
	st.end("engine-error", fmt.Sprintf("cannot call %T", fn))
	return nil
}

func (st *State) callSSA(fn *ssa.Function, args []Value, env []Value, caller *frame) Value {
	vm := st.vm
	name := fn.String()
	if fn.Parent() == nil {
		if fn.Name() == "init" && fn.Pkg != nil && st.inInit > 0 && caller != nil && caller.fn.Name() == "init" && caller.fn.Pkg != fn.Pkg {
			// imported package's init called from a package init: packages are
			// initialised lazily on first access instead.
			return nil
		}
		if rep, ok := vm.Replace[name]; ok && st.inInit == 0 {
			return st.callSSA(rep, args, nil, caller)
		}
		if in, ok := intrinsics[name]; ok {
			if st.noIntrinsic != fn {
				return in(st, caller, fn, args)
			}
			st.noIntrinsic = nil
		}
		if fn.Pkg != nil && fn.Pkg.Pkg.Path() == vm.APIPath {
			return st.callAPI(fn, args, caller)
		}
	}
	if fn.Blocks == nil {
		if gen := genericIntrinsic(name); gen != nil {
			return gen(st, caller, fn, args)
		}
		if st.inInit > 0 {
			return poisonResult(fn, "no body: "+name)
		}
		st.unsupported("call to function without body: %s", name)
	}
	if fn.TypeParams().Len() > 0 && len(fn.TypeArgs()) == 0 {
		st.unsupported("call of uninstantiated generic %s", name)
	}
	st.depth++
	if st.depth > st.vm.Cfg.MaxDepth {
		st.end("budget", "call depth exceeded at "+name)
	}
	vm.fnCount[fn]++
	fi := vm.info(fn)
	fr := &frame{st: st, caller: caller, fn: fn, info: fi, regs: make([]Value, fi.nregs), depthAtEntry: st.depth}
	fr.isPkgInit = fn.Name() == "init" && fn.Synthetic != "" && fn.Parent() == nil
	for i, p := range fn.Params {
		fr.regs[fi.idx[p]] = args[i]
	}
	for i, fv := range fn.FreeVars {
		fr.regs[fi.idx[fv]] = env[i]
	}
	for _, l := range fn.Locals {
		t := l.Type().(*types.Pointer).Elem()
		fr.regs[fi.idx[l]] = Ptr{O: st.newObj(Zero(t), t)}
	}
	savedFn := st.curFn
	st.curFn = name
	fr.block = fn.Blocks[0]
	for fr.block != nil {
		fr.run()
	}
	st.curFn = savedFn
	st.depth--
	return fr.result
}

func poisonResult(fn *ssa.Function, why string) Value {
	res := fn.Signature.Results()
	switch res.Len() {
	case 0:
		return nil
	case 1:
		return Poison{why}
	}
	t := make(Tuple, res.Len())
	for i := range t {
		t[i] = Poison{why}
	}
	return t
}

// run executes instructions until return or until a panic has been handled by the
// frame's defers (then continues at the Recover block).
func (fr *frame) run() {
	st := fr.st
	defer func() {
		if fr.block == nil {
			return // normal return
		}
		r := recover()
		if _, ge := r.(goexitUnwind); ge {
			fr.goexit = true
			fr.panicking = false
			st.curFn = fr.fn.String()
			fr.runDefers() // re-raises goexitUnwind when done
		}
		tp, ok := r.(targetPanic)
		if !ok {
			switch r.(type) {
			case pathEnd, engineCrash, threadKill:
			default:
				r = engineCrash{Msg: fmt.Sprint(r), Stack: string(debug.Stack()), Fn: fr.fn.String()}
			}
			panic(r) // pathEnd or engine bug: propagate
		}
		fr.panicking = true
		fr.panicVal = tp
		st.curFn = fr.fn.String()
		fr.runDefers()
		// recovered
		fr.block = fr.fn.Recover
		if fr.block == nil {
			// no named results: return zero values
			fr.result = zeroResults(fr.fn)
		}
	}()
	for {
		block := fr.block
		instrs := block.Instrs
		// phis
		n := 0
		for n < len(instrs) {
			if _, ok := instrs[n].(*ssa.Phi); !ok {
				break
			}
			n++
		}
		if n > 0 {
			pred := -1
			for i, p := range block.Preds {
				if p == fr.prevBlock {
					pred = i
					break
				}
			}
			fr.phitemps = fr.phitemps[:0]
			for _, ins := range instrs[:n] {
				fr.phitemps = append(fr.phitemps, fr.get(ins.(*ssa.Phi).Edges[pred]))
			}
			for i, ins := range instrs[:n] {
				fr.set(ins.(*ssa.Phi), fr.phitemps[i])
			}
		}
		jumped := false
		for _, ins := range instrs[n:] {
			st.steps++
			if st.steps > st.vm.Cfg.MaxSteps && st.inInit == 0 {
				st.end("budget", "step budget exceeded")
			}
			var k continuation
			if st.inInit > 0 && fr.isPkgInit {
				k = fr.visitIsolated(ins)
			} else {
				k = fr.visit(ins)
			}
			switch k {
			case kReturn:
				return
			case kJump:
				jumped = true
			}
			if jumped {
				break
			}
		}
		if !jumped {
			st.end("engine-error", "block fell through: "+fr.fn.String())
		}
	}
}

func zeroResults(fn *ssa.Function) Value {
	res := fn.Signature.Results()
	switch res.Len() {
	case 0:
		return nil
	case 1:
		return Zero(res.At(0).Type())
	}
	return Zero(res)
}

func (fr *frame) runDefers() {
	for d := fr.defers; d != nil; d = fr.defers {
		fr.defers = d.tail
		fr.runDefer(d)
	}
	if fr.goexit {
		panic(goexitUnwind{})
	}
	if fr.panicking {
		panic(fr.panicVal)
	}
}

func (fr *frame) runDefer(d *deferred) {
	ok := false
	defer func() {
		if !ok {
			r := recover()
			if tp, isTP := r.(targetPanic); isTP {
				fr.panicking = true
				fr.panicVal = tp
			} else if _, isGE := r.(goexitUnwind); isGE {
				// runtime.Goexit in a deferred call: the remaining deferred calls still run
				fr.goexit = true
				fr.panicking = false
			} else {
				panic(r)
			}
		}
	}()
	fr.st.call(d.fn, d.args, fr)
	ok = true
}

type continuation int

const (
	kNext continuation = iota
	kReturn
	kJump
)

func (fr *frame) prepareCall(call *ssa.CallCommon) (Value, []Value) {
	st := fr.st
	v := fr.get(call.Value)
	var fn Value
	var args []Value
	if call.Method == nil {
		fn = v
	} else {
		recv, ok := v.(Iface)
		if !ok {
			if p, isP := v.(Poison); isP {
				if st.inInit > 0 {
					return p, nil
				}
				st.end("poison", p.Why)
			}
			st.end("engine-error", fmt.Sprintf("invoke on %T", v))
		}
		if recv.T == nil {
			st.nilDeref()
		}
		f := st.vm.Prog.LookupMethod(recv.T, call.Method.Pkg(), call.Method.Name())
		if f == nil {
			st.end("engine-error", fmt.Sprintf("method %s not found for %v", call.Method.Name(), recv.T))
		}
		fn = f
		args = append(args, recv.V)
	}
	for _, a := range call.Args {
		args = append(args, fr.get(a))
	}
	return fn, args
}

func (fr *frame) visit(instr ssa.Instruction) continuation {
	st := fr.st
	switch instr := instr.(type) {
	case *ssa.DebugRef:
	case *ssa.UnOp:
		fr.set(instr, st.unop(instr, fr.get(instr.X)))
	case *ssa.BinOp:
		fr.set(instr, st.binop(instr.Op, instr.X.Type(), instr.Y.Type(), fr.get(instr.X), fr.get(instr.Y)))
	case *ssa.Call:
		fn, args := fr.prepareCall(&instr.Call)
		fr.set(instr, st.call(fn, args, fr))
	case *ssa.ChangeInterface:
		fr.set(instr, fr.get(instr.X))
	case *ssa.ChangeType:
		fr.set(instr, fr.get(instr.X))
	case *ssa.Convert:
		fr.set(instr, st.conv(instr.Type(), instr.X.Type(), fr.get(instr.X)))
	case *ssa.MultiConvert:
		fr.set(instr, st.conv(instr.Type(), instr.X.Type(), fr.get(instr.X)))
	case *ssa.SliceToArrayPointer:
		s := fr.get(instr.X).(Slice)
		n := int(instr.Type().(*types.Pointer).Elem().Underlying().(*types.Array).Len())
		if s.Len < n {
			st.throwRuntime("cannot convert slice to array pointer: length too short")
		}
		if s.Arr.O == nil {
			fr.set(instr, Ptr{})
		} else if s.Off == 0 && n == len(st.arrayOf(s.Arr).E) {
			fr.set(instr, s.Arr)
		} else {
			st.unsupported("slice to array pointer with offset")
		}
	case *ssa.MakeInterface:
		fr.set(instr, Iface{T: instr.X.Type(), V: fr.get(instr.X)})
	case *ssa.Extract:
		tv := fr.get(instr.Tuple)
		if p, ok := tv.(Poison); ok {
			fr.set(instr, p)
		} else {
			fr.set(instr, tv.(Tuple)[instr.Index])
		}
	case *ssa.Slice:
		fr.set(instr, st.sliceOp(instr, fr.get(instr.X), fr.get(instr.Low), fr.get(instr.High), fr.get(instr.Max)))
	case *ssa.Return:
		switch len(instr.Results) {
		case 0:
		case 1:
			fr.result = fr.get(instr.Results[0])
		default:
			res := make(Tuple, len(instr.Results))
			for i, r := range instr.Results {
				res[i] = fr.get(r)
			}
			fr.result = res
		}
		fr.block = nil
		return kReturn
	case *ssa.RunDefers:
		fr.runDefers()
	case *ssa.Panic:
		panic(targetPanic{V: fr.get(instr.X), Where: fr.fn.String()})
	case *ssa.Send:
		st.chanSend(fr.get(instr.Chan).(ChanRef), fr.get(instr.X))
	case *ssa.Store:
		p, ok := fr.get(instr.Addr).(Ptr)
		if !ok {
			if st.inInit > 0 {
				return kNext
			}
			st.end("poison", "store through poison")
		}
		st.Store(p, fr.get(instr.Val))
	case *ssa.If:
		c := fr.get(instr.Cond)
		ct, ok := c.(*term.T)
		if !ok {
			if p, isP := c.(Poison); isP {
				st.end("poison", "branch on poison: "+p.Why)
			}
			st.end("engine-error", "If on non-scalar")
		}
		succ := 1
		if st.Branch(ct) {
			succ = 0
		}
		fr.prevBlock, fr.block = fr.block, fr.block.Succs[succ]
		return kJump
	case *ssa.Jump:
		fr.prevBlock, fr.block = fr.block, fr.block.Succs[0]
		return kJump
	case *ssa.Defer:
		fn, args := fr.prepareCall(&instr.Call)
		defers := &fr.defers
		if instr.DeferStack != nil {
			ds := fr.get(instr.DeferStack)
			if ds != nil {
				defers = ds.(*deferStack).head
			}
		}
		*defers = &deferred{fn: fn, args: args, tail: *defers}
	case *ssa.Go:
		fn, args := fr.prepareCall(&instr.Call)
		if st.sch.on {
			st.spawnThread(fn, args)
			st.yield()
		} else {
			st.spawned = append(st.spawned, spawnedCall{Fn: fn, Args: args})
		}
	case *ssa.MakeChan:
		n := st.asInt(fr.get(instr.Size), 0, 64)
		fr.set(instr, ChanRef{O: st.newObj(&ChanV{Cap: int(n)}, instr.Type())})
	case *ssa.Alloc:
		t := instr.Type().(*types.Pointer).Elem()
		if instr.Heap {
			fr.set(instr, Ptr{O: st.newObj(Zero(t), t)})
		} else {
			// local: re-zero (fresh object per execution keeps closures captured earlier intact)
			fr.set(instr, Ptr{O: st.newObj(Zero(t), t)})
		}
	case *ssa.MakeSlice:
		for _, v := range []Value{fr.get(instr.Cap), fr.get(instr.Len)} {
			if t := asTerm(st, v); !t.IsConst() {
				t64 := t
				if t.W < 64 {
					t64 = term.MkSExt(64, t)
				}
				if !st.Branch(term.MkCmp(term.Ule, t64, term.BV(64, 1<<20))) {
					st.throwRuntime("makeslice: len out of range (or beyond the VM's 2^20 limit)")
				}
			}
		}
		c := st.asInt(fr.get(instr.Cap), 0, 1<<20)
		n := st.asInt(fr.get(instr.Len), 0, 1<<20)
		if n < 0 || c < n || c > 1<<24 {
			st.throwRuntime("makeslice: len out of range")
		}
		fr.set(instr, st.makeSlice(instr.Type().Underlying().(*types.Slice).Elem(), int(n), int(c)))
	case *ssa.MakeMap:
		fr.set(instr, st.newMap(instr.Type()))
	case *ssa.Range:
		fr.set(instr, st.rangeIter(fr.get(instr.X)))
	case *ssa.Next:
		fr.set(instr, st.iterNext(instr, fr.get(instr.Iter)))
	case *ssa.FieldAddr:
		p, ok := fr.get(instr.X).(Ptr)
		if !ok {
			if po, isP := fr.get(instr.X).(Poison); isP {
				if st.inInit > 0 {
					fr.set(instr, po)
					return kNext
				}
				st.end("poison", po.Why)
			}
			st.end("engine-error", "FieldAddr on non-pointer")
		}
		if p.O == nil {
			st.nilDeref()
		}
		fr.set(instr, Ptr{O: p.O, Path: appendPath(p.Path, PathElem{I: instr.Field})})
	case *ssa.Field:
		x := fr.get(instr.X)
		if po, isP := x.(Poison); isP {
			fr.set(instr, po)
			return kNext
		}
		fr.set(instr, CopyVal(x.(*StructV).F[instr.Field]))
	case *ssa.IndexAddr:
		fr.set(instr, st.indexAddr(instr, fr.get(instr.X), fr.get(instr.Index)))
	case *ssa.Index:
		fr.set(instr, st.index(instr, fr.get(instr.X), fr.get(instr.Index)))
	case *ssa.Lookup:
		fr.set(instr, st.lookup(instr, fr.get(instr.X), fr.get(instr.Index)))
	case *ssa.MapUpdate:
		m, ok := fr.get(instr.Map).(MapRef)
		if !ok {
			if st.inInit > 0 {
				return kNext
			}
			st.end("poison", "map update on poison")
		}
		st.mapSet(m, fr.get(instr.Key), fr.get(instr.Value))
	case *ssa.TypeAssert:
		fr.set(instr, st.typeAssert(instr, fr.get(instr.X)))
	case *ssa.MakeClosure:
		var env []Value
		for _, b := range instr.Bindings {
			env = append(env, fr.get(b))
		}
		fr.set(instr, &Closure{Fn: instr.Fn.(*ssa.Function), Env: env})
	case *ssa.Select:
		fr.set(instr, st.selectOp(fr, instr))
	default:
		st.unsupported("instruction %T", instr)
	}
	return kNext
}

type deferStack struct{ head **deferred }

// ---------------------------------------------------------------- indexing

func (st *State) boundsCheck(idx *term.T, n int) {
	// idx is 64-bit (sign-extended index); fails if idx <0 || idx >= n (unsigned compare covers both)
	inb := term.MkCmp(term.Ult, idx, term.BV(64, uint64(n)))
	if !st.Branch(inb) {
		st.throwRuntime(fmt.Sprintf("index out of range [?] with length %d", n))
	}
}

func (st *State) idx64(v Value, t types.Type) *term.T {
	x := asTerm(st, v)
	if x.W == 64 {
		return x
	}
	if isSigned(t) {
		return term.MkSExt(64, x)
	}
	return term.MkZExt(64, x)
}

func isScalarType(t types.Type) bool {
	b, ok := under(t).(*types.Basic)
	return ok && (b.Info()&(types.IsInteger|types.IsBoolean) != 0)
}

func (st *State) indexAddr(instr *ssa.IndexAddr, x, idx Value) Value {
	i := st.idx64(idx, instr.Index.Type())
	switch xv := x.(type) {
	case Slice:
		st.boundsCheck(i, xv.Len)
		if i.IsConst() {
			return elemPtr(xv.Arr, xv.Off+int(i.Val))
		}
		elem := instr.X.Type().Underlying().(*types.Slice).Elem()
		if !isScalarType(elem) || xv.Len > 1024 {
			k := st.Concretize(i, 0, int64(xv.Len-1))
			return elemPtr(xv.Arr, xv.Off+int(k))
		}
		abs := term.MkBin(term.Add, i, term.BV(64, uint64(xv.Off)))
		return Ptr{O: xv.Arr.O, Path: appendPath(xv.Arr.Path, PathElem{Sym: abs, Lo: xv.Off, Hi: xv.Off + xv.Len})}
	case Ptr: // *array
		if xv.O == nil {
			st.nilDeref()
		}
		at := instr.X.Type().Underlying().(*types.Pointer).Elem().Underlying().(*types.Array)
		n := int(at.Len())
		st.boundsCheck(i, n)
		if i.IsConst() {
			return elemPtr(xv, int(i.Val))
		}
		if !isScalarType(at.Elem()) || n > 1024 {
			k := st.Concretize(i, 0, int64(n-1))
			return elemPtr(xv, int(k))
		}
		return Ptr{O: xv.O, Path: appendPath(xv.Path, PathElem{Sym: i, Lo: 0, Hi: n})}
	case Poison:
		if st.inInit > 0 {
			return xv
		}
		st.end("poison", xv.Why)
	}
	st.end("engine-error", fmt.Sprintf("IndexAddr on %T", x))
	return nil
}

func (st *State) index(instr *ssa.Index, x, idx Value) Value {
	i := st.idx64(idx, instr.Index.Type())
	switch xv := x.(type) {
	case Str:
		n := xv.Len()
		st.boundsCheck(i, n)
		if i.IsConst() {
			return xv.At(int(i.Val))
		}
		return iteTree(i, xv.Bytes(), 0, n)
	case *ArrayV:
		n := len(xv.E)
		st.boundsCheck(i, n)
		if i.IsConst() {
			return CopyVal(xv.E[i.Val])
		}
		leaves := make([]*term.T, n)
		for k, e := range xv.E {
			t, ok := e.(*term.T)
			if !ok {
				kk := st.Concretize(i, 0, int64(n-1))
				return CopyVal(xv.E[kk])
			}
			leaves[k] = t
		}
		return iteTree(i, leaves, 0, n)
	case Poison:
		return xv
	}
	st.end("engine-error", fmt.Sprintf("Index on %T", x))
	return nil
}

func (st *State) lookup(instr *ssa.Lookup, x, key Value) Value {
	switch xv := x.(type) {
	case MapRef:
		v, ok := st.mapGet(xv, key)
		if !ok {
			v = Zero(instr.X.Type().Underlying().(*types.Map).Elem())
		}
		if instr.CommaOk {
			return Tuple{v, term.Bool(ok)}
		}
		return v
	case Poison:
		if instr.CommaOk {
			return Tuple{xv, xv}
		}
		return xv
	}
	st.end("engine-error", fmt.Sprintf("Lookup on %T", x))
	return nil
}

func (st *State) sliceOp(instr *ssa.Slice, x, lo, hi, max Value) Value {
	if p, ok := x.(Poison); ok {
		return p
	}
	var length, capacity int
	switch xv := x.(type) {
	case Str:
		length = xv.Len()
		capacity = length
	case Slice:
		length, capacity = xv.Len, xv.Cap
	case Ptr:
		if xv.O == nil {
			st.nilDeref()
		}
		n := int(instr.X.Type().Underlying().(*types.Pointer).Elem().Underlying().(*types.Array).Len())
		length, capacity = n, n
	default:
		st.end("engine-error", fmt.Sprintf("Slice on %T", x))
	}
	l, h, m := int64(0), int64(length), int64(capacity)
	limit := int64(capacity)
	if _, isStr := x.(Str); isStr {
		limit = int64(length)
	}
	conc := func(v Value, t types.Type) int64 {
		tt := st.idx64(v, t)
		if tt.IsConst() {
			return tt.Signed()
		}
		// fork on out-of-range first
		if !st.Branch(term.MkCmp(term.Ule, tt, term.BV(64, uint64(limit)))) {
			st.throwRuntime("slice bounds out of range")
		}
		return st.Concretize(tt, 0, limit)
	}
	if lo != nil {
		l = conc(lo, instr.Low.Type())
	}
	if hi != nil {
		h = conc(hi, instr.High.Type())
	}
	if max != nil {
		m = conc(max, instr.Max.Type())
	}
	if l < 0 || l > h || h > m || m > limit {
		if !(max == nil && h <= limit && l >= 0 && l <= h) {
			st.throwRuntime(fmt.Sprintf("slice bounds out of range [%d:%d:%d] with capacity %d", l, h, m, limit))
		}
	}
	switch xv := x.(type) {
	case Str:
		return xv.Slice(int(l), int(h))
	case Slice:
		if xv.Arr.O == nil {
			return Slice{}
		}
		return Slice{Arr: xv.Arr, Off: xv.Off + int(l), Len: int(h - l), Cap: int(m - l)}
	case Ptr:
		return Slice{Arr: xv, Off: int(l), Len: int(h - l), Cap: int(m - l)}
	}
	return nil
}

// ---------------------------------------------------------------- type assertions

func (st *State) implements(t types.Type, it *types.Interface) bool {
	return types.Implements(t, it)
}

func (st *State) typeAssert(instr *ssa.TypeAssert, x Value) Value {
	v, ok := x.(Iface)
	if !ok {
		if p, isP := x.(Poison); isP {
			if instr.CommaOk {
				return Tuple{p, p}
			}
			return p
		}
		st.end("engine-error", fmt.Sprintf("TypeAssert on %T", x))
	}
	var res Value
	okk := false
	if it, isI := instr.AssertedType.Underlying().(*types.Interface); isI {
		if v.T != nil && st.implements(v.T, it) {
			res, okk = v, true
		}
	} else if v.T != nil && types.Identical(v.T, instr.AssertedType) {
		res, okk = v.V, true
	}
	if instr.CommaOk {
		if !okk {
			res = Zero(instr.AssertedType)
		}
		return Tuple{res, term.Bool(okk)}
	}
	if !okk {
		st.throwRuntime(fmt.Sprintf("interface conversion: interface is %v, not %v", v.T, instr.AssertedType))
	}
	return res
}

// ---------------------------------------------------------------- range

func (st *State) rangeIter(x Value) Value {
	switch xv := x.(type) {
	case Str:
		return &StrIter{S: xv}
	case MapRef:
		it := &MapIter{}
		st.guardCheck(xv, false)
		if xv.O != nil {
			m := st.rd(xv.O).V.(*MapV)
			for _, e := range m.Entries {
				if !e.Del {
					it.Keys = append(it.Keys, e.K)
					it.Vals = append(it.Vals, e.V)
				}
			}
		}
		return it
	}
	st.end("engine-error", fmt.Sprintf("Range on %T", x))
	return nil
}

func (st *State) iterNext(instr *ssa.Next, it Value) Value {
	switch it := it.(type) {
	case *StrIter:
		ok, i, r := st.strIterNext(it)
		return Tuple{term.Bool(ok), i, r}
	case *MapIter:
		tt := instr.Type().(*types.Tuple)
		if it.I >= len(it.Keys) {
			var k, v Value = term.False, term.False
			if tt.At(1).Type() != nil && !isInvalid(tt.At(1).Type()) {
				k = Zero(tt.At(1).Type())
			}
			if !isInvalid(tt.At(2).Type()) {
				v = Zero(tt.At(2).Type())
			}
			return Tuple{term.False, k, v}
		}
		k, v := it.Keys[it.I], it.Vals[it.I]
		it.I++
		return Tuple{term.True, CopyVal(k), CopyVal(v)}
	}
	st.end("engine-error", fmt.Sprintf("Next on %T", it))
	return nil
}

func isInvalid(t types.Type) bool {
	b, ok := t.(*types.Basic)
	return ok && b.Kind() == types.Invalid
}

// ---------------------------------------------------------------- channels (single-threaded)

func (st *State) chanSend(c ChanRef, v Value) {
	if c.O == nil {
		st.end("blocked", "send on nil channel")
	}
	if !st.inSelect {
		st.yield()
	}
	ch := st.wr(c.O).V.(*ChanV)
	if ch.Closed {
		st.throwRuntime("send on closed channel")
	}
	for len(ch.Buf) >= ch.Cap {
		// (unbuffered channels are modelled with capacity 0 and never accept a send: a
		// rendezvous needs a parked receiver, which this model does not implement)
		if ch.Cap == 0 || !st.block("send on full channel") {
			st.end("blocked", "send on full channel")
		}
		ch = st.wr(c.O).V.(*ChanV)
		if ch.Closed {
			st.throwRuntime("send on closed channel")
		}
	}
	ch.Buf = append(ch.Buf, CopyVal(v))
	st.progress()
}

func (st *State) chanRecv(c ChanRef, commaOk bool, elem types.Type) Value {
	if c.O == nil {
		st.end("blocked", "receive from nil channel")
	}
	var v Value
	ok := true
	if !st.inSelect {
		st.yield()
	}
retry:
	ch := st.wr(c.O).V.(*ChanV)
	switch {
	case len(ch.Buf) > 0:
		v = ch.Buf[0]
		ch.Buf = ch.Buf[1:]
	case ch.Closed:
		v = Zero(elem)
		ok = false
	default:
		if st.block("receive from empty channel") || st.runPending() {
			goto retry
		}
		st.end("blocked", "receive from empty channel")
	}
	if commaOk {
		return Tuple{v, term.Bool(ok)}
	}
	return v
}

func (st *State) chanClose(c ChanRef) {
	if c.O == nil {
		st.throwRuntime("close of nil channel")
	}
	ch := st.wr(c.O).V.(*ChanV)
	if ch.Closed {
		st.throwRuntime("close of closed channel")
	}
	ch.Closed = true
	st.progress()
}

func (st *State) selectOp(fr *frame, instr *ssa.Select) Value {
	// pick the first ready case in order (deterministic), or default, or block.
	chosen := -1
	var recv Value
	recvOk := false
	st.yield()
	st.inSelect = true
	defer func() { st.inSelect = false }()
retry:
	for i, s := range instr.States {
		c := fr.get(s.Chan).(ChanRef)
		if c.O == nil {
			continue
		}
		ch := st.rd(c.O).V.(*ChanV)
		if s.Dir == types.RecvOnly {
			if len(ch.Buf) > 0 || ch.Closed {
				r := st.chanRecv(c, true, s.Chan.Type().Underlying().(*types.Chan).Elem()).(Tuple)
				recv = r[0]
				recvOk = r[1].(*term.T).IsTrue()
				chosen = i
				break
			}
		} else {
			if ch.Closed {
				st.throwRuntime("send on closed channel")
			}
			if len(ch.Buf) < ch.Cap {
				st.chanSend(c, fr.get(s.Send))
				chosen = i
				break
			}
		}
	}
	if chosen < 0 && instr.Blocking {
		if st.block("select with no ready case") || st.runPending() {
			goto retry
		}
		st.end("blocked", "select with no ready case")
	}
	r := Tuple{term.BV(64, uint64(int64(chosen))), term.Bool(recvOk)}
	for i, s := range instr.States {
		if s.Dir == types.RecvOnly {
			if i == chosen && recv != nil {
				r = append(r, recv)
			} else {
				r = append(r, Zero(s.Chan.Type().Underlying().(*types.Chan).Elem()))
			}
		}
	}
	return r
}

// ---------------------------------------------------------------- builtins

func (st *State) callBuiltin(fn *ssa.Builtin, args []Value, caller *frame) Value {
	switch fn.Name() {
	case "append":
		if len(args) == 1 {
			return args[0]
		}
		if s, ok := args[1].(Str); ok {
			args[1] = st.bytesToSlice(append([]*term.T(nil), s.Bytes()...))
		}
		if p, ok := args[0].(Poison); ok {
			return p
		}
		a, b := args[0].(Slice), args[1].(Slice)
		if b.Len == 0 {
			return a
		}
		elemT := fn.Type().(*types.Signature).Params().At(0).Type().Underlying().(*types.Slice).Elem()
		bel := st.sliceElems(b)
		if a.Len+b.Len <= a.Cap {
			arr := st.arrayOfW(a.Arr)
			// re-read b in case of overlap
			tmp := make([]Value, len(bel))
			for i, e := range bel {
				tmp[i] = CopyVal(e)
			}
			copy(arr.E[a.Off+a.Len:], tmp)
			return Slice{Arr: a.Arr, Off: a.Off, Len: a.Len + b.Len, Cap: a.Cap}
		}
		// grow: mimic Go's growth loosely (double), exact capacity is implementation-defined
		nc := a.Cap * 2
		if nc < a.Len+b.Len {
			nc = a.Len + b.Len
		}
		if nc < 4 && a.Cap == 0 {
			if nc < a.Len+b.Len {
				nc = a.Len + b.Len
			}
		}
		ns := st.makeSlice(elemT, a.Len+b.Len, nc)
		arr := st.arrayOfW(ns.Arr)
		ael := st.sliceElems(a)
		for i, e := range ael {
			arr.E[i] = CopyVal(e)
		}
		for i, e := range bel {
			arr.E[a.Len+i] = CopyVal(e)
		}
		return ns
	case "copy":
		dst, ok := args[0].(Slice)
		if !ok {
			return term.BV(64, 0)
		}
		var src []Value
		switch s := args[1].(type) {
		case Slice:
			for _, e := range st.sliceElems(s) {
				src = append(src, CopyVal(e))
			}
		case Str:
			for _, b := range s.Bytes() {
				src = append(src, b)
			}
		}
		n := len(src)
		if dst.Len < n {
			n = dst.Len
		}
		if n > 0 {
			arr := st.arrayOfW(dst.Arr)
			copy(arr.E[dst.Off:dst.Off+n], src[:n])
		}
		return term.BV(64, uint64(n))
	case "close":
		st.chanClose(args[0].(ChanRef))
		return nil
	case "delete":
		st.mapDelete(args[0].(MapRef), args[1])
		return nil
	case "print", "println":
		return nil
	case "len":
		switch x := args[0].(type) {
		case Str:
			return term.BV(64, uint64(x.Len()))
		case Slice:
			return term.BV(64, uint64(x.Len))
		case *ArrayV:
			return term.BV(64, uint64(len(x.E)))
		case Ptr:
			return term.BV(64, uint64(len(st.Load(x).(*ArrayV).E)))
		case MapRef:
			if x.O == nil {
				return term.BV(64, 0)
			}
			return term.BV(64, uint64(st.rd(x.O).V.(*MapV).N))
		case ChanRef:
			if x.O == nil {
				return term.BV(64, 0)
			}
			return term.BV(64, uint64(len(st.rd(x.O).V.(*ChanV).Buf)))
		case Poison:
			return x
		}
	case "cap":
		switch x := args[0].(type) {
		case Slice:
			return term.BV(64, uint64(x.Cap))
		case *ArrayV:
			return term.BV(64, uint64(len(x.E)))
		case Ptr:
			return term.BV(64, uint64(len(st.Load(x).(*ArrayV).E)))
		case ChanRef:
			if x.O == nil {
				return term.BV(64, 0)
			}
			return term.BV(64, uint64(st.rd(x.O).V.(*ChanV).Cap))
		}
	case "min", "max":
		r := args[0]
		for _, a := range args[1:] {
			t := fn.Type().(*types.Signature).Params().At(0).Type()
			var less *term.T
			if fn.Name() == "min" {
				less = asTerm(st, st.binop(token.LSS, t, t, a, r))
			} else {
				less = asTerm(st, st.binop(token.GTR, t, t, a, r))
			}
			switch rv := r.(type) {
			case *term.T:
				r = term.MkIte(less, a.(*term.T), rv)
			default:
				if st.Branch(less) {
					r = a
				}
			}
		}
		return r
	case "clear":
		switch x := args[0].(type) {
		case MapRef:
			if x.O != nil {
				m := st.wr(x.O).V.(*MapV)
				m.Entries = nil
				m.Idx = map[string]int{}
				m.N, m.NSym = 0, 0
			}
		case Slice:
			if x.Len > 0 {
				arr := st.arrayOfW(x.Arr)
				el := fn.Type().(*types.Signature).Params().At(0).Type().Underlying().(*types.Slice).Elem()
				for i := 0; i < x.Len; i++ {
					arr.E[x.Off+i] = Zero(el)
				}
			}
		}
		return nil
	case "panic":
		panic(targetPanic{V: args[0], Where: st.curFn})
	case "recover":
		return st.doRecover(caller)
	case "ssa:wrapnilchk":
		if p, ok := args[0].(Ptr); ok && p.O == nil {
			st.nilDeref()
		}
		return args[0]
	case "ssa:deferstack":
		return &deferStack{head: &caller.defers}
	case "real", "imag", "complex":
		st.unsupported("complex builtin")
	}
	if v, ok := st.unsafeBuiltin(fn, args); ok {
		return v
	}
	st.unsupported("builtin %s on %T", fn.Name(), firstOrNil(args))
	return nil
}

func firstOrNil(a []Value) Value {
	if len(a) == 0 {
		return nil
	}
	return a[0]
}

func (st *State) doRecover(caller *frame) Value {
	// recover() must be called directly by a deferred function: caller is the deferred
	// function's frame, caller.caller is the panicking frame.
	if caller != nil && !caller.panicking && caller.caller != nil && caller.caller.panicking {
		caller.caller.panicking = false
		tp := caller.caller.panicVal.(targetPanic)
		caller.caller.panicVal = nil
		return tp.V
	}
	return Iface{}
}

func describePanic(v Value) string {
	if i, ok := v.(Iface); ok {
		if i.T == nil {
			return "panic(nil)"
		}
		if s, ok := i.V.(Str); ok && s.B == nil {
			return "panic: " + s.S
		}
		if p, ok := i.V.(Ptr); ok && p.O != nil {
			if sv, ok := p.O.V.(*StructV); ok && len(sv.F) > 0 {
				if s, ok := sv.F[0].(Str); ok && s.B == nil {
					return "panic: " + s.S
				}
			}
		}
		return "panic of type " + types.TypeString(i.T, nil)
	}
	return "panic: " + Describe(v)
}

var _ = strings.Contains
