package vm

import (
	"fmt"
	"os"
	"runtime/debug"
	"sort"
	"strings"
	"sync"
	"time"

	"golang.org/x/tools/go/ssa"

	"symgo/solver"
)

// Explorer runs all paths of a harness function with a pool of workers.
type Explorer struct {
	Prog    *ssa.Program
	Entry   *ssa.Function
	Cfg     *Config
	APIPath string
	Replace map[string]*ssa.Function
	NWorkers int
	Deadline time.Time

	mu       sync.Mutex
	cond     *sync.Cond
	queue    [][]int32
	active   int
	stopped  bool

	// results
	Paths        map[string]int // status -> count
	PathDetails  map[string]int // status: detail -> count
	Failures     []Failure
	failSeen     map[string]bool
	Inconclusive []string
	Reached      map[string]int
	Steps        int64
	Branches     int64
	AssertsChecked int64
	TrivialAsserts int64
	UnknownBranches int64
	SolverQueries int
	SolverSat, SolverUnsat, SolverUnknown int
	SolverTime   time.Duration
	FnCount      map[string]int
	FnInstrs     map[string]int
	Samples      []PathSample
	MaxPaths     int
	TimedOut     bool
	knownSeen    map[string]bool
	AllowStatus  map[string]bool // path end statuses that are acceptable besides ok/assume
}

type PathSample struct {
	Status string            `json:"status"`
	PC     []string          `json:"path_condition"`
	Model  map[string]uint64 `json:"model,omitempty"`
	Steps  int               `json:"ssa_steps"`
}

type Worker struct {
	id     int
	ex     *Explorer
	vm     *VM
	solver *solver.Solver
	branches, unknownBranches, assertQueries, assertsChecked, trivialAsserts, guessHits int64
}

func (w *Worker) push(prefix []int32) {
	ex := w.ex
	ex.mu.Lock()
	ex.queue = append(ex.queue, prefix)
	ex.mu.Unlock()
	ex.cond.Signal()
}

func (w *Worker) report(f Failure) {
	ex := w.ex
	ex.mu.Lock()
	defer ex.mu.Unlock()
	key := f.Label + "|" + f.Known
	if ex.failSeen[key] {
		return
	}
	ex.failSeen[key] = true
	ex.Failures = append(ex.Failures, f)
}

func (w *Worker) knownSeen(label, class string) bool {
	ex := w.ex
	ex.mu.Lock()
	defer ex.mu.Unlock()
	return ex.failSeen[label+"|"+class]
}

func (w *Worker) inconclusive(msg string) {
	ex := w.ex
	ex.mu.Lock()
	defer ex.mu.Unlock()
	if len(ex.Inconclusive) < 50 {
		ex.Inconclusive = append(ex.Inconclusive, msg)
	}
}

func (ex *Explorer) pop() ([]int32, bool) {
	ex.mu.Lock()
	defer ex.mu.Unlock()
	for {
		if ex.stopped {
			return nil, false
		}
		if n := len(ex.queue); n > 0 {
			p := ex.queue[n-1]
			ex.queue = ex.queue[:n-1]
			ex.active++
			return p, true
		}
		if ex.active == 0 {
			ex.cond.Broadcast()
			return nil, false
		}
		ex.cond.Wait()
	}
}

func (ex *Explorer) done() {
	ex.mu.Lock()
	ex.active--
	if ex.active == 0 && len(ex.queue) == 0 {
		ex.cond.Broadcast()
	}
	ex.mu.Unlock()
}

func (ex *Explorer) newVM() *VM {
	vm := NewVM(ex.Prog, ex.Cfg)
	vm.APIPath = ex.APIPath
	for k, v := range ex.Replace {
		vm.Replace[k] = v
	}
	return vm
}

// Run explores all paths symbolically.
func (ex *Explorer) Run() {
	ex.cond = sync.NewCond(&ex.mu)
	ex.Paths = map[string]int{}
	ex.PathDetails = map[string]int{}
	ex.failSeen = map[string]bool{}
	ex.Reached = map[string]int{}
	ex.FnCount = map[string]int{}
	ex.FnInstrs = map[string]int{}
	ex.queue = [][]int32{nil}
	var wg sync.WaitGroup
	for i := 0; i < ex.NWorkers; i++ {
		wg.Add(1)
		go func(id int) {
			defer wg.Done()
			s, err := solver.Start(ex.Cfg.Solver, ex.Cfg.TimeoutMs)
			if err != nil {
				ex.mu.Lock()
				ex.Inconclusive = append(ex.Inconclusive, "cannot start solver: "+err.Error())
				ex.mu.Unlock()
				return
			}
			w := &Worker{id: id, ex: ex, vm: ex.newVM(), solver: s}
			defer func() { w.solver.Close() }()
			for {
				prefix, ok := ex.pop()
				if !ok {
					break
				}
				_, status, detail := w.runPath(prefix, nil)
				if status == "solver-error" {
					// a solver process that answered with an error (sporadic: e.g. z3's
					// "push canceled" after a timeout) is replaced and the path re-run once;
					// a second error stays inconclusive
					if s2, err := solver.Start(ex.Cfg.Solver, ex.Cfg.TimeoutMs); err == nil {
						w.solver.Close()
						s2.Queries, s2.NSat, s2.NUnsat, s2.NUnknown, s2.NError, s2.Time = s.Queries, s.NSat, s.NUnsat, s.NUnknown, s.NError, s.Time
						w.solver, s = s2, s2
						ex.mu.Lock()
						ex.Paths["solver-error"]--
						if ex.Paths["solver-error"] == 0 {
							delete(ex.Paths, "solver-error")
						}
						for k := range ex.PathDetails {
							if strings.HasPrefix(k, "solver-error: ") && strings.Contains(k, detail[:min(len(detail), 40)]) {
								ex.PathDetails[k]--
								if ex.PathDetails[k] <= 0 {
									delete(ex.PathDetails, k)
								}
								break
							}
						}
						ex.mu.Unlock()
						w.runPath(prefix, nil)
					}
				}
				ex.done()
				if time.Now().After(ex.Deadline) {
					ex.mu.Lock()
					ex.stopped = true
					ex.TimedOut = true
					ex.cond.Broadcast()
					ex.mu.Unlock()
				}
			}
			ex.mu.Lock()
			ex.Branches += w.branches
			ex.UnknownBranches += w.unknownBranches
			ex.AssertsChecked += w.assertsChecked
			ex.TrivialAsserts += w.trivialAsserts
			ex.SolverQueries += s.Queries
			ex.SolverSat += s.NSat
			ex.SolverUnsat += s.NUnsat
			ex.SolverUnknown += s.NUnknown + s.NError
			ex.SolverTime += s.Time
			for fn, n := range w.vm.fnCount {
				name := fn.String()
				ex.FnCount[name] += n
				if _, ok := ex.FnInstrs[name]; !ok {
					c := 0
					for _, b := range fn.Blocks {
						c += len(b.Instrs)
					}
					ex.FnInstrs[name] = c
				}
			}
			ex.mu.Unlock()
		}(i)
	}
	wg.Wait()
}

func (w *Worker) newState(prefix []int32, concrete []uint64) *State {
	return &State{vm: w.vm, w: w, overlay: map[*Obj]*Obj{}, prefix: prefix, vars: map[string]int{}, reached: map[string]bool{}, concrete: concrete}
}

// runPath executes one path. Returns the state for inspection (concrete mode).
func (w *Worker) runPath(prefix []int32, concrete []uint64) (st *State, status, detail string) {
	ex := w.ex
	st = w.newState(prefix, concrete)
	status = "ok"
	func() {
		defer func() {
			r := recover()
			if r == nil {
				return
			}
			switch e := r.(type) {
			case pathEnd:
				status, detail = e.Status, e.Detail
			case targetPanic:
				status, detail = "panic", describePanic(e.V)+" (raised in "+e.Where+")"
				// an uncaught panic is a failure of the implicit "no panic escapes" assertion
				func() {
					defer func() {
						if r2 := recover(); r2 != nil {
							if pe, ok := r2.(pathEnd); ok {
								status, detail = pe.Status, pe.Detail
							} else {
								panic(r2)
							}
						}
					}()
					st.failure("uncaught "+describePanic(e.V), nil, "raised in "+e.Where)
				}()
			case engineCrash:
				st := e.Stack
				if i := strings.Index(st, "panic("); i >= 0 {
					st = st[i:]
				}
				if len(st) > 1500 {
					st = st[:1500]
				}
				status, detail = "engine-crash", e.Msg+" in "+e.Fn+"\n"+st
			default:
				status, detail = "engine-crash", fmt.Sprintf("%v\n%s", r, debug.Stack())
			}
		}()
		st.call(ex.Entry, nil, nil)
	}()
	st.killThreads()
	if status == "blocked" || status == "fatal" || status == "exit" {
		if !ex.AllowStatus[status] {
			func() {
				defer func() { recover() }()
				st.failure(status+": "+detail, nil, "")
			}()
		}
	}
	if concrete != nil {
		return st, status, detail
	}
	ex.mu.Lock()
	ex.Paths[status]++
	if status != "ok" && status != "assume" {
		d := detail
		if status == "engine-crash" {
			if i := strings.Index(d, "panic({"); i >= 0 && len(d) > i+1600 {
				d = d[:60] + " ... " + d[i:i+1600]
			}
		} else if len(d) > 300 {
			d = d[:300]
		}
		ex.PathDetails[status+": "+d]++
	}
	ex.Steps += int64(st.steps)
	for l := range st.reached {
		ex.Reached[l]++
	}
	total := 0
	for _, n := range ex.Paths {
		total += n
	}
	if len(ex.Samples) < 6 && (status == "ok" || len(ex.Samples) < 2) && total%7 == 1 {
		ps := PathSample{Status: status, Steps: st.steps}
		for i, a := range st.pc {
			if i >= 12 {
				ps.PC = append(ps.PC, fmt.Sprintf("... (%d more conjuncts)", len(st.pc)-i))
				break
			}
			s := a.S
			if len(s) > 200 {
				s = s[:200] + "..."
			}
			ps.PC = append(ps.PC, s)
		}
		if st.model != nil {
			ps.Model = map[string]uint64{}
			for _, in := range st.inputs {
				ps.Model[in.Name] = st.model[in.Name]
			}
		}
		ex.Samples = append(ex.Samples, ps)
	}
	if ex.MaxPaths > 0 && total >= ex.MaxPaths {
		ex.stopped = true
		ex.TimedOut = true
		ex.cond.Broadcast()
	}
	ex.mu.Unlock()
	if os.Getenv("SYMGO_TRACE_PATHS") != "" {
		fmt.Fprintf(os.Stderr, "path %v: %s %s steps=%d\n", prefix, status, detail, st.steps)
	}
	return st, status, detail
}

// ConcreteResult is the observable outcome of a concrete run of the harness.
type ConcreteResult struct {
	Status   string   `json:"status"` // ok, assume, panic
	Failures []string `json:"failures"`
	Known    []string `json:"known"`
	Obs      []uint64 `json:"obs"`
	Detail   string   `json:"detail,omitempty"`
}

// RunConcrete executes the harness in the VM on a concrete input vector.
func (ex *Explorer) RunConcrete(w *Worker, vec []uint64) ConcreteResult {
	if vec == nil {
		vec = []uint64{}
	}
	saved := ex.Failures
	savedSeen := ex.failSeen
	ex.Failures = nil
	ex.failSeen = map[string]bool{}
	st, status, detail := w.runPath(nil, vec)
	res := ConcreteResult{Status: status, Detail: detail, Obs: st.obs}
	for _, f := range ex.Failures {
		if len(f.Label) >= 8 && f.Label[:8] == "uncaught" {
			continue
		}
		res.Failures = append(res.Failures, f.Label)
	}
	for _, k := range st.known {
		if k.Cond.IsTrue() {
			res.Known = append(res.Known, k.Label)
		}
	}
	sort.Strings(res.Failures)
	ex.Failures = saved
	ex.failSeen = savedSeen
	return res
}

// NewConcreteWorker makes a worker without a solver for concrete runs.
func (ex *Explorer) NewConcreteWorker() *Worker {
	if ex.cond == nil {
		ex.cond = sync.NewCond(&ex.mu)
		ex.Paths = map[string]int{}
		ex.PathDetails = map[string]int{}
		ex.failSeen = map[string]bool{}
		ex.Reached = map[string]int{}
		ex.FnCount = map[string]int{}
		ex.FnInstrs = map[string]int{}
	}
	return &Worker{id: -1, ex: ex, vm: ex.newVM()}
}
