package vm

import (
	"fmt"
	"os"

	"golang.org/x/tools/go/ssa"
)

// visitIsolated executes one instruction of a synthesized package initializer with fault
// isolation: if the instruction cannot be executed (unsupported operation, reflection-based
// protobuf runtime set-up, a panic), its result becomes Poison and initialisation continues
// with the next instruction, so that unrelated package-level variables are still
// initialised. Poison that later reaches control flow or memory ends that path as
// inconclusive, so no verdict ever depends on it.
func (fr *frame) visitIsolated(ins ssa.Instruction) (k continuation) {
	st := fr.st
	defer func() {
		r := recover()
		if r == nil {
			return
		}
		var why string
		switch e := r.(type) {
		case pathEnd:
			why = e.Status + ": " + e.Detail
		case targetPanic:
			why = "panic: " + describePanic(e.V)
		default:
			panic(r)
		}
		if os.Getenv("SYMGO_DEBUG_INIT") != "" {
			fmt.Fprintf(os.Stderr, "init %s: skipped %v: %s\n", fr.fn.Pkg.Pkg.Path(), ins, why)
		}
		st.depth = fr.depthAtEntry
		st.curFn = fr.fn.String()
		if v, ok := ins.(ssa.Value); ok {
			fr.set(v, Poison{Why: "package init of " + fr.fn.Pkg.Pkg.Path() + ": " + why})
		}
		switch ins.(type) {
		case *ssa.If, *ssa.Jump, *ssa.Return, *ssa.Panic:
			// cannot continue past failed control flow
			panic(r)
		}
		k = kNext
	}()
	return fr.visit(ins)
}
