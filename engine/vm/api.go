package vm

import (
	"fmt"
	"go/types"

	"golang.org/x/tools/go/ssa"

	"symgo/term"
)

func constStr(st *State, v Value) string {
	s, ok := v.(Str)
	if !ok || s.B != nil {
		st.end("engine-error", "API label must be a constant string")
	}
	return s.S
}

// callAPI implements the harness API (package zzverif).
func (st *State) callAPI(fn *ssa.Function, a []Value, caller *frame) Value {
	switch fn.Name() {
	case "Byte", "U8":
		return st.newInput("b", 8)
	case "U16":
		return st.newInput("h", 16)
	case "U32", "I32", "Rune":
		return st.newInput("w", 32)
	case "U64", "I64", "Int", "Uint":
		return st.newInput("q", 64)
	case "Bool":
		return st.newInput("p", 0)
	case "IntRange":
		lo := st.asInt(a[0], -1<<40, 1<<40)
		hi := st.asInt(a[1], -1<<40, 1<<40)
		v := st.newInput("r", 64)
		st.Assume(term.MkAnd(term.MkCmp(term.Sle, i64(lo), v), term.MkCmp(term.Sle, v, i64(hi))))
		return i64(st.Concretize(v, lo, hi))
	case "Choice":
		n := st.asInt(a[0], 1, 1<<16)
		v := st.newInput("c", 64)
		st.Assume(term.MkCmp(term.Ult, v, i64(n)))
		return i64(st.Concretize(v, 0, n-1))
	case "Bytes":
		n := int(st.asInt(a[0], 0, 1<<16))
		b := make([]*term.T, n)
		for i := range b {
			b[i] = st.newInput("b", 8)
		}
		return st.bytesToSlice(b)
	case "String":
		n := int(st.asInt(a[0], 0, 1<<16))
		b := make([]*term.T, n)
		for i := range b {
			b[i] = st.newInput("b", 8)
		}
		return StrFromBytes(b)
	case "Assume":
		st.Assume(asTerm(st, a[0]))
		return nil
	case "Assert":
		st.Assert(asTerm(st, a[0]), constStr(st, a[1]))
		return nil
	case "Reach":
		st.reached[constStr(st, a[0])] = true
		return nil
	case "Known":
		st.known = append(st.known, knownClass{Label: constStr(st, a[0]), Cond: asTerm(st, a[1])})
		return nil
	case "GuardMap":
		m, ok := a[0].(Iface)
		if !ok || m.T == nil {
			return nil
		}
		mr, ok := m.V.(MapRef)
		if !ok || mr.O == nil {
			return nil
		}
		mu := a[1].(Iface).V.(Ptr)
		if st.guards == nil {
			st.guards = map[*Obj]guardInfo{}
		}
		st.guards[mr.O] = guardInfo{lockKey: ptrKey(mu), label: constStr(st, a[2])}
		return nil
	case "KnownFor":
		kc := knownClass{Label: constStr(st, a[0]), Cond: asTerm(st, a[1])}
		if sl, ok := a[2].(Slice); ok {
			for _, e := range st.sliceElems(sl) {
				kc.Only = append(kc.Only, constStr(st, e))
			}
		}
		st.known = append(st.known, kc)
		return nil
	case "And":
		return term.MkAnd(asTerm(st, a[0]), asTerm(st, a[1]))
	case "Or":
		return term.MkOr(asTerm(st, a[0]), asTerm(st, a[1]))
	case "Implies":
		return term.MkImplies(asTerm(st, a[0]), asTerm(st, a[1]))
	case "Not":
		return term.MkNot(asTerm(st, a[0]))
	case "Iff":
		return term.MkEq(asTerm(st, a[0]), asTerm(st, a[1]))
	case "IteInt", "IteU64", "IteByte", "IteI32":
		return term.MkIte(asTerm(st, a[0]), asTerm(st, a[1]), asTerm(st, a[2]))
	case "EqStr":
		return StrEq(a[0].(Str), a[1].(Str))
	case "EqBytes":
		return bytesEqTerm(st.strOrBytes(a[0]), st.strOrBytes(a[1]))
	case "Obs":
		t := asTerm(st, a[0])
		if t.IsConst() {
			st.obs = append(st.obs, t.Val)
		}
		return nil
	case "ObsStr":
		s := a[0].(Str)
		if s.B == nil {
			st.obs = append(st.obs, uint64(len(s.S)))
			for i := 0; i < len(s.S); i++ {
				st.obs = append(st.obs, uint64(s.S[i]))
			}
		}
		return nil
	case "ObsBytes":
		b := st.strOrBytes(a[0])
		if allConst(b) {
			st.obs = append(st.obs, uint64(len(b)))
			for _, t := range b {
				st.obs = append(st.obs, t.Val)
			}
		}
		return nil
	case "Concrete":
		lo := st.asInt(a[1], -1<<40, 1<<40)
		hi := st.asInt(a[2], -1<<40, 1<<40)
		t := asTerm(st, a[0])
		if !t.IsConst() {
			if !st.Branch(term.MkAnd(term.MkCmp(term.Sle, i64(lo), t), term.MkCmp(term.Sle, t, i64(hi)))) {
				st.end("engine-error", "Concrete: value outside declared range")
			}
		}
		return i64(st.Concretize(t, lo, hi))
	case "Held":
		// 0 unlocked, -1 write-locked, n>0 read-locked n times
		var p Ptr
		switch x := a[0].(type) {
		case Iface:
			p = x.V.(Ptr)
		case Ptr:
			p = x
		}
		_, s := st.lockState(p)
		return i64(int64(s))
	case "NumSpawned":
		return i64(int64(len(st.spawned)))
	case "RunSpawned":
		i := int(st.asInt(a[0], 0, 1<<10))
		if i >= len(st.spawned) {
			st.end("engine-error", "RunSpawned: no such goroutine")
		}
		st.spawned[i].Started = true
		sp := st.spawned[i]
		st.call(sp.Fn, sp.Args, nil)
		return nil
	case "Trace":
		st.trace = append(st.trace, constStr(st, a[0]))
		return nil
	case "TraceLen":
		return i64(int64(len(st.trace)))
	case "TraceAt":
		i := int(st.asInt(a[0], 0, 1<<20))
		return Str{S: st.trace[i]}
	case "Tier":
		return i64(int64(st.vm.Cfg.Tier))
	case "Symbolic":
		return term.Bool(st.concrete == nil)
	case "Schedule":
		st.schedOn(int(st.asInt(a[0], 0, 16)))
		return nil
	case "Quiesce":
		// wait until every other goroutine has finished; goroutines that can never finish
		// end the path as a deadlock (reported)
		for st.sch.on {
			alive := false
			for _, t := range st.sch.threads[1:] {
				if !t.done {
					alive = true
				}
			}
			if !alive {
				break
			}
			st.block("waiting for the remaining goroutines to finish")
		}
		return nil
	case "AutoSchedule":
		st.autoSched = true
		return nil
	case "ExpectBlocked":
		st.expectBlocked = true
		return nil
	}
	st.unsupported("unknown API function %s", fn.Name())
	return nil
}

// unsafeBuiltin handles unsafe.{Add,Slice,SliceData,String,StringData}.
func (st *State) unsafeBuiltin(fn *ssa.Builtin, a []Value) (Value, bool) {
	switch fn.Name() {
	case "Sizeof", "Alignof":
		t := fn.Type().(*types.Signature).Params().At(0).Type()
		sz := types.SizesFor("gc", "amd64")
		if fn.Name() == "Sizeof" {
			return term.BV(64, uint64(sz.Sizeof(t))), true
		}
		return term.BV(64, uint64(sz.Alignof(t))), true
	case "String":
		p := a[0].(Ptr)
		n := int(st.asInt(a[1], 0, 1<<24))
		if n == 0 {
			return Str{}, true
		}
		if p.O == nil || len(p.Path) == 0 {
			st.unsupported("unsafe.String on non-element pointer")
		}
		last := p.Path[len(p.Path)-1]
		if last.Sym != nil {
			st.unsupported("unsafe.String with symbolic pointer")
		}
		arr := st.arrayOf(Ptr{O: p.O, Path: p.Path[:len(p.Path)-1]})
		b := make([]*term.T, 0, n)
		for i := last.I; len(b) < n; i++ {
			if i >= len(arr.E) {
				st.unsupported("unsafe.String reads past the end of the backing array")
			}
			e := asTerm(st, arr.E[i])
			if e.W == 8 {
				b = append(b, e)
				continue
			}
			// wider integer elements viewed as bytes (little endian)
			for k := 0; k < e.W/8 && len(b) < n; k++ {
				b = append(b, term.MkExtract(k*8+7, k*8, e))
			}
		}
		return StrFromBytes(b), true
	case "StringData":
		s := a[0].(Str)
		if s.Len() == 0 {
			return Ptr{}, true
		}
		sl := st.bytesToSlice(append([]*term.T(nil), s.Bytes()...))
		return elemPtr(sl.Arr, 0), true
	case "SliceData":
		s := a[0].(Slice)
		if s.Arr.O == nil {
			return Ptr{}, true
		}
		return elemPtr(s.Arr, s.Off), true
	case "Slice":
		p := a[0].(Ptr)
		n := int(st.asInt(a[1], 0, 1<<24))
		if p.O == nil {
			return Slice{}, true
		}
		if len(p.Path) == 0 {
			st.unsupported("unsafe.Slice on non-element pointer")
		}
		last := p.Path[len(p.Path)-1]
		if last.Sym != nil {
			st.unsupported("unsafe.Slice with symbolic pointer")
		}
		return Slice{Arr: Ptr{O: p.O, Path: p.Path[:len(p.Path)-1]}, Off: last.I, Len: n, Cap: n}, true
	case "Add":
		p := a[0].(Ptr)
		if ot := asTerm(st, a[1]); !ot.IsConst() && p.O != nil && len(p.Path) > 0 {
			// symbolic offset: it can only address elements of the same array
			lastE := p.Path[len(p.Path)-1]
			if parr, isArr := st.walk(st.rd(p.O).V, p.Path[:len(p.Path)-1]).(*ArrayV); isArr && lastE.Sym == nil && len(parr.E) > 0 {
				esz := st.sizeofValue(parr.E[0])
				if esz > 0 {
					lo, hi := -int64(lastE.I)*esz, int64(len(parr.E)-lastE.I)*esz
					if !st.Branch(term.MkAnd(term.MkCmp(term.Sle, i64(lo), ot), term.MkCmp(term.Sle, ot, i64(hi)))) {
						st.unsupported("unsafe.Add outside the array")
					}
					off := st.Concretize(ot, lo, hi)
					a = []Value{a[0], i64(off)}
				}
			}
		}
		off := st.asInt(a[1], -1<<30, 1<<30)
		if off == 0 {
			return p, true
		}
		if p.O == nil || len(p.Path) == 0 {
			st.unsupported("unsafe.Add on non-element pointer")
		}
		last := p.Path[len(p.Path)-1]
		parent := st.walk(st.rd(p.O).V, p.Path[:len(p.Path)-1])
		arr, ok := parent.(*ArrayV)
		if !ok || last.Sym != nil {
			st.unsupported("unsafe.Add on non-array element")
		}
		// element size from the static array type is not tracked: derive from first element
		sz := st.sizeofValue(arr.E[0])
		if sz <= 0 || off%sz != 0 {
			st.unsupported("unsafe.Add with unaligned offset %d (elem size %d)", off, sz)
		}
		np := Ptr{O: p.O, Path: appendPath(p.Path[:len(p.Path)-1], PathElem{I: last.I + int(off/sz)})}
		return np, true
	}
	return nil, false
}

func (st *State) sizeofValue(v Value) int64 {
	switch x := v.(type) {
	case *term.T:
		if x.W == 0 {
			return 1
		}
		return int64(x.W / 8)
	case Float:
		return int64(x.Bits / 8)
	case Ptr, MapRef, ChanRef:
		return 8
	case Str, Iface:
		return 16
	case Slice:
		return 24
	case *StructV:
		var s, maxAlign int64 = 0, 1
		for _, f := range x.F {
			fs := st.sizeofValue(f)
			al := fs
			if al > 8 {
				al = 8
			}
			if al < 1 {
				al = 1
			}
			if al > maxAlign {
				maxAlign = al
			}
			if s%al != 0 {
				s += al - s%al
			}
			s += fs
		}
		if s%maxAlign != 0 {
			s += maxAlign - s%maxAlign
		}
		return s
	case *ArrayV:
		if len(x.E) == 0 {
			return 0
		}
		return int64(len(x.E)) * st.sizeofValue(x.E[0])
	}
	return -1
}

var _ = fmt.Sprintf
var _ types.Type
