package vm

import (
	"golang.org/x/tools/go/ssa"
)

// callForFormatting calls a String()/Error() method whose result only feeds message text.
// Message text is never part of a claim, so if the method cannot be executed (reflection,
// unsupported operation, a panic) the formatter falls back to a placeholder instead of
// ending the path. Side effects of a partially executed formatting method are the only
// thing lost; such methods are pure in the code under analysis.
func (st *State) callForFormatting(m *ssa.Function, args []Value, caller *frame) (res Value, ok bool) {
	depth, cur, steps := st.depth, st.curFn, st.steps
	defer func() {
		if r := recover(); r != nil {
			switch e := r.(type) {
			case pathEnd:
				switch e.Status {
				case "unsupported", "engine-error", "poison":
					st.depth, st.curFn = depth, cur
					_ = steps
					res, ok = nil, false
					return
				}
				panic(r)
			case targetPanic:
				st.depth, st.curFn = depth, cur
				res, ok = nil, false
			default:
				panic(r)
			}
		}
	}()
	return st.call(m, args, caller), true
}
