package vm

import (
	"symgo/solver"
	"symgo/term"
)

const dValBase int32 = 1 << 20 // dValBase + 2*(v-lo) : assume t==v ; +1: assume t!=v and look again

// concretizeByModel forks over the feasible values of t in [lo,hi] lazily: it asks the
// solver for one value, explores "t == v" and enqueues "t != v".
func (st *State) concretizeByModel(t *term.T, lo, hi int64) int64 {
	if hi-lo >= 1<<28 {
		st.unsupported("concretize over huge range [%d,%d]", lo, hi)
	}
	for iter := 0; iter < 4096; iter++ {
		if st.replaying() {
			d := st.nextDecision()
			if d < dValBase {
				st.end("engine-error", "decision kind mismatch at value concretization")
			}
			k := int64(d-dValBase) / 2
			v := lo + k
			eq := term.MkEq(t, term.BV(t.W, uint64(v)))
			if (d-dValBase)%2 == 0 {
				st.addPC(eq)
				return v
			}
			st.addPC(term.MkNot(eq))
			continue
		}
		// find a candidate value
		var v int64
		found := false
		if st.model != nil {
			if mv, ok := term.Eval(t, st.model); ok {
				v = term.BV(t.W, mv).Signed()
				found = true
			}
		}
		if !found {
			r, m := st.sat()
			if r != solver.Sat {
				st.end("infeasible", "no model for value concretization")
			}
			st.model = m
			mv, ok := term.Eval(t, m)
			if !ok {
				st.end("engine-error", "cannot evaluate term under model")
			}
			v = term.BV(t.W, mv).Signed()
		}
		if v < lo || v > hi {
			// outside the declared range: the caller's range check should have excluded it
			st.end("engine-error", "concretized value outside declared range")
		}
		eq := term.MkEq(t, term.BV(t.W, uint64(v)))
		ne := term.MkNot(eq)
		r, _ := st.sat(ne)
		if r != solver.Unsat {
			if r != solver.Sat {
				st.approx = true
				st.w.unknownBranches++
			}
			alt := make([]int32, len(st.record)+1)
			copy(alt, st.record)
			alt[len(st.record)] = dValBase + int32(2*(v-lo)+1)
			st.w.push(alt)
		}
		st.record = append(st.record, dValBase+int32(2*(v-lo)))
		st.addPC(eq)
		return v
	}
	st.end("budget", "value concretization did not converge")
	return 0
}
