package vm

import (
	"golang.org/x/tools/go/ssa"

	"symgo/term"
)

// OpaqueFloat is a float whose value the VM does not track (result of converting
// symbolic text or integers to floating point). Arithmetic on it stays opaque; anything
// that would need its value (comparison, conversion to integer, bit pattern) ends the path
// as unsupported, so no verdict ever depends on it.
type OpaqueFloat struct{ Bits int }

func registerFloatIntrinsics() {
	// classification of an opaque float is unknown: both answers are explored (a recorded,
	// input-free choice), which over-approximates the real behaviour.
	for _, name := range []string{"math.IsInf", "math.IsNaN"} {
		intrinsics[name] = func(st *State, caller *frame, fn *ssa.Function, a []Value) Value {
			if _, ok := a[0].(OpaqueFloat); ok {
				return term.Bool(st.Choose(make([]*term.T, 2)) == 1)
			}
			return st.callBody(fn, a, caller)
		}
	}
	// strconv.atof64 on symbolic text: the syntax decision is made by the real
	// strconv.special / strconv.readFloat code (integer and byte logic), the numeric value is
	// opaque. Range errors of symbolic literals are not modelled (listed as an assumption by
	// the checks that reach this).
	intrinsics["strconv.atof64"] = func(st *State, caller *frame, fn *ssa.Function, a []Value) Value {
		s := a[0].(Str)
		if s.B == nil {
			return st.callBody(fn, a, caller)
		}
		pkg := fn.Pkg
		special := pkg.Func("special")
		readFloat := pkg.Func("readFloat")
		syntaxError := pkg.Func("syntaxError")
		if special == nil || readFloat == nil || syntaxError == nil {
			st.unsupported("strconv internals not found")
		}
		r := st.call(special, []Value{s}, caller).(Tuple)
		if st.Branch(asTerm(st, r[2])) {
			return Tuple{r[0], r[1], Iface{}}
		}
		rf := st.call(readFloat, []Value{s}, caller).(Tuple)
		n := rf[5]
		if !st.Branch(asTerm(st, rf[6])) {
			e := st.call(syntaxError, []Value{Str{S: "ParseFloat"}, s}, caller)
			return Tuple{Float{0, 64}, n, Iface{T: syntaxError.Signature.Results().At(0).Type(), V: e}}
		}
		st.reached["assumption:float-value-opaque"] = true
		return Tuple{OpaqueFloat{64}, n, Iface{}}
	}
}

// callBody interprets fn's own body even though an intrinsic is registered for it.
func (st *State) callBody(fn *ssa.Function, args []Value, caller *frame) Value {
	st.noIntrinsic = fn
	defer func() { st.noIntrinsic = nil }()
	return st.callSSA(fn, args, nil, caller)
}
