#!/bin/bash
# Runs the repository's test suite with the verif guard OFF (no tags, no overlay), as in BASELINE.json.
cd /repo || exit 2
unset GOFLAGS
go test -json -vet=off -count=1 -timeout 25m ./...
