//go:build verif

package incremental

import (
	"context"

	"github.com/bufbuild/protocompile/experimental/report"
	zz "github.com/bufbuild/protocompile/internal/zzverif"
)

// zzD is a query that emits a symbolic number of diagnostics and depends on the later
// queries selected by dep.
type zzD struct {
	i int
	g *zzDiagGraph
}

type zzDiagGraph struct {
	n    int
	dep  [3][3]bool
	emit [3]int
}

var zzDiagMsgs = [3][3]string{{"q0-a", "q0-b", "q0-c"}, {"q1-a", "q1-b", "q1-c"}, {"q2-a", "q2-b", "q2-c"}}

func (q zzD) Key() any { return q.i }

func (q zzD) Execute(t *Task) (int, error) {
	g := q.g
	for k := 0; k < g.emit[q.i]; k++ {
		t.Report().Errorf("%s", zzDiagMsgs[q.i][k])
	}
	for j := q.i + 1; j < g.n; j++ {
		if g.dep[q.i][j] {
			if _, err := Resolve(t, Query[int](zzD{j, g})); err != nil {
				return 0, err
			}
		}
	}
	return q.i, nil
}

func zzMsgs(r *report.Report) []string {
	var out []string
	for i := range r.Diagnostics {
		out = append(out, r.Diagnostics[i].Message())
	}
	return out
}

func zzSameMsgs(a, b []string) bool {
	if len(a) != len(b) {
		return false
	}
	for i := range a {
		if a[i] != b[i] {
			return false
		}
	}
	return true
}

// HarnessC36Runs: diagnostics of repeated runs. Every DAG on 3 queries, each emitting 0..3
// diagnostics: the report of a run lists exactly the diagnostics of the queries reachable
// from the root (each once), a second run (everything memoised) returns the same report, and
// so does a third run after evicting an arbitrary key; reports handed out earlier are not
// modified by later runs.
func HarnessC36Runs() {
	g := &zzDiagGraph{n: 3}
	for i := 0; i < g.n; i++ {
		g.emit[i] = zz.Choice(4)
		for j := i + 1; j < g.n; j++ {
			g.dep[i][j] = zz.Choice(2) == 1
		}
	}
	want := 0
	reach := [3]bool{true, g.dep[0][1], g.dep[0][2] || (g.dep[0][1] && g.dep[1][2])}
	for i := 0; i < g.n; i++ {
		if reach[i] {
			want += g.emit[i]
		}
	}
	e := New(WithParallelism(1))
	ctx := context.Background()
	_, rep1, err := Run(ctx, e, Query[int](zzD{0, g}))
	zz.Assert(err == nil && rep1 != nil, "C36/run-succeeds")
	if err != nil || rep1 == nil {
		return
	}
	m1 := zzMsgs(rep1)
	zz.Assert(len(m1) == want, "C36/report-lists-each-reachable-diagnostic-once")
	_, rep2, err := Run(ctx, e, Query[int](zzD{0, g}))
	zz.Assert(err == nil && rep2 != nil && zzSameMsgs(zzMsgs(rep2), m1), "C36/memoised-run-returns-the-same-report")
	zz.Assert(zzSameMsgs(zzMsgs(rep1), m1), "C36/earlier-report-not-modified-by-a-later-run")
	e.Evict(zz.Choice(3))
	_, rep3, err := Run(ctx, e, Query[int](zzD{0, g}))
	zz.Assert(err == nil && rep3 != nil && zzSameMsgs(zzMsgs(rep3), m1), "C36/run-after-eviction-returns-the-same-report")
	zz.Reach("C36/runs-done")
}
