//go:build verif

package incremental

import (
	"errors"

	zz "github.com/bufbuild/protocompile/internal/zzverif"
)

// HarnessC34Cycle: every dependency graph on N tasks (symbolic edge relation, self-loops
// included). checkCycle for target task t on behalf of the caller's task must return a
// cycle error exactly when the caller's task is reachable from t through recorded
// dependencies (t itself included), the reported cycle must be a real dependency path
// from t to the caller's task followed by the requested query, and the call must return.
func HarnessC34Cycle() {
	N := 3
	if zz.Tier() == 1 {
		N = 4
	}
	tasks := make([]*task, N)
	for i := range tasks {
		tasks[i] = &task{query: &AnyQuery{key: i}}
	}
	var e [4][4]bool
	for u := 0; u < N; u++ {
		for v := 0; v < N; v++ {
			e[u][v] = zz.Bool()
			if e[u][v] {
				tasks[u].deps.Store(tasks[v], struct{}{})
			}
		}
	}
	ci := zz.Choice(N)
	ti := zz.Choice(N)
	caller := &Task{task: tasks[ci]}
	q := &AnyQuery{key: 100}
	err := tasks[ti].checkCycle(caller, q)

	// reference reachability (paths of length >= 0 from ti to ci)
	var r [4][4]bool
	for u := 0; u < N; u++ {
		for v := 0; v < N; v++ {
			r[u][v] = e[u][v]
		}
	}
	for k := 0; k < N; k++ {
		for u := 0; u < N; u++ {
			for v := 0; v < N; v++ {
				r[u][v] = zz.Or(r[u][v], zz.And(r[u][k], r[k][v]))
			}
		}
	}
	want := zz.Or(ti == ci, r[ti][ci])
	zz.Assert(zz.Iff(err != nil, want), "C34/cycle-error-iff-caller-reachable")
	if err != nil {
		var ce *ErrCycle
		ok := errors.As(err, &ce)
		zz.Assert(ok, "C34/error-is-ErrCycle")
		if ok {
			c := ce.Cycle
			zz.Assert(len(c) >= 2 && len(c) <= N+2, "C34/cycle-length")
			if len(c) >= 2 {
				zz.Assert(c[len(c)-1] == q, "C34/cycle-ends-with-the-requested-query")
				zz.Assert(c[0] == tasks[ti].query, "C34/cycle-starts-at-the-target")
				zz.Assert(c[len(c)-2] == tasks[ci].query, "C34/cycle-reaches-the-callers-query")
				// consecutive entries (before q) follow recorded dependencies: c[k] depends on c[k+1]
				if ti != ci {
					for k := 0; k+2 < len(c); k++ {
						a, b := c[k].key.(int), c[k+1].key.(int)
						zz.Assert(e[a][b], "C34/cycle-follows-recorded-dependencies")
					}
				}
			}
		}
		zz.Reach("C34/cycle-found")
	}
}
