//go:build verif

package incremental

import (
	"context"
	"errors"

	zz "github.com/bufbuild/protocompile/internal/zzverif"
)

// zzQ is a deterministic query over a small symbolic dependency DAG: query i depends on
// the queries j > i with dep[i][j]; its value is 1 + the sum of its dependencies' values.
// Each Resolve call asks for one query, so everything runs on the calling goroutine.
type zzQ struct {
	i int
	g *zzGraph
}

type zzGraph struct {
	n      int
	dep    [5][5]bool
	runs   [5]int
	panics [5]bool
	fails  [5]bool
	desc   [5]bool // query i resolves its dependencies in descending order
}

func (q zzQ) Key() any { return q.i }

func (q zzQ) Execute(t *Task) (int, error) {
	g := q.g
	g.runs[q.i]++
	if g.panics[q.i] {
		panic("query panicked")
	}
	sum := 1
	for k := q.i + 1; k < g.n; k++ {
		j := k
		if g.desc[q.i] {
			j = g.n - (k - q.i)
		}
		if g.dep[q.i][j] {
			r, err := Resolve(t, Query[int](zzQ{j, g}))
			if err != nil {
				return 0, err
			}
			if r[0].Fatal != nil {
				return 0, r[0].Fatal
			}
			sum += r[0].Value
		}
	}
	if g.fails[q.i] {
		return 0, errors.New("query failed")
	}
	return sum, nil
}

func (g *zzGraph) want(i int) int {
	sum := 1
	for j := i + 1; j < g.n; j++ {
		if g.dep[i][j] {
			sum += g.want(j)
		}
	}
	return sum
}

// HarnessC33Seq: sequential histories on the real executor (New, Run, Resolve, task.run,
// Evict) over every DAG on 3 queries: a run returns the value a fresh computation would,
// every query executes at most once between evictions, a second run recomputes nothing and
// reports Changed == false, evicting a key recomputes exactly that key and its transitive
// callers, and all semaphore permits are free after each run.
func HarnessC33Seq() {
	g := &zzGraph{n: 3}
	if zz.Tier() == 1 {
		g.n = 5
	}
	for i := 0; i < g.n; i++ {
		for j := i + 1; j < g.n; j++ {
			g.dep[i][j] = zz.Bool()
		}
	}
	if zz.Tier() == 1 {
		// the order in which a query resolves its dependencies shapes the callers sets the
		// eviction walk iterates over: ascending or descending for the first three queries
		for i := 0; i < 3; i++ {
			g.desc[i] = zz.Choice(2) == 1
		}
	}
	e := New(WithParallelism(1))
	ctx := context.Background()
	res, _, err := Run(ctx, e, Query[int](zzQ{0, g}))
	zz.Assert(err == nil, "C33/run-returns-no-error")
	if err != nil || len(res) != 1 {
		return
	}
	zz.Assert(res[0].Fatal == nil && res[0].Value == g.want(0), "C33/value-equals-fresh-computation")
	zz.Assert(res[0].Changed, "C33/first-run-is-changed")
	for i := 0; i < g.n; i++ {
		zz.Assert(g.runs[i] <= 1, "C33/each-query-executes-at-most-once")
	}
	r0 := g.runs
	// second run: everything memoised
	res2, _, err := Run(ctx, e, Query[int](zzQ{0, g}))
	zz.Assert(err == nil && len(res2) == 1 && res2[0].Value == g.want(0), "C33/second-run-same-value")
	if err != nil || len(res2) != 1 {
		return
	}
	zz.Assert(!res2[0].Changed, "C33/memoised-result-is-not-changed")
	for i := 0; i < g.n; i++ {
		zz.Assert(g.runs[i] == r0[i], "C33/second-run-recomputes-nothing")
	}
	// evict one key: exactly it and its transitive callers are recomputed
	k := zz.Choice(g.n)
	e.Evict(k)
	res3, _, err := Run(ctx, e, Query[int](zzQ{0, g}))
	zz.Assert(err == nil && len(res3) == 1 && res3[0].Value == g.want(0), "C33/run-after-evict-same-value")
	if err == nil && len(res3) == 1 {
		zz.Assert(res3[0].Changed == (g.runs[0] > r0[0]), "C33/changed-iff-computed-in-this-run")
	}
	zz.Assert(e.sema.TryAcquire(1), "C33/permit-free-after-runs")
	e.sema.Release(1)
	var reach [5][5]bool
	for i := 0; i < g.n; i++ {
		for j := 0; j < g.n; j++ {
			reach[i][j] = i == j || g.dep[i][j]
		}
	}
	for m := 0; m < g.n; m++ {
		for i := 0; i < g.n; i++ {
			for j := 0; j < g.n; j++ {
				reach[i][j] = reach[i][j] || (reach[i][m] && reach[m][j])
			}
		}
	}
	for i := 0; i < g.n; i++ {
		executedBefore := r0[i] > 0
		shouldRerun := executedBefore && reach[i][k] && r0[k] > 0
		if shouldRerun {
			zz.Assert(g.runs[i] == r0[i]+1, "C33/evicted-key-and-its-callers-are-recomputed")
		} else {
			zz.Assert(g.runs[i] == r0[i], "C33/unrelated-queries-are-not-recomputed")
		}
	}
	zz.Reach("C33/done")
}
