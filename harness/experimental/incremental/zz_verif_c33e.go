//go:build verif

package incremental

import (
	"context"
	"sync"

	zz "github.com/bufbuild/protocompile/internal/zzverif"
)

// zzIn is a leaf query reading a mutable input; zzTop depends on it (value = 2*input).
type zzIn struct{ v *int }

func (q zzIn) Key() any                      { return "in" }
func (q zzIn) Execute(t *Task) (int, error) { return *q.v, nil }

type zzTop struct{ v *int }

func (q zzTop) Key() any { return "top" }
func (q zzTop) Execute(t *Task) (int, error) {
	r, err := Resolve(t, Query[int](zzIn{q.v}))
	if err != nil {
		return 0, err
	}
	if r[0].Fatal != nil {
		return 0, r[0].Fatal
	}
	return 2 * r[0].Value, nil
}

// HarnessC33Evict: an input change applied with EvictWithCleanup (evict the leaf, write the
// new input inside the cleanup) racing with a concurrent Run of the dependent query, under
// every schedule within the delay bound: the racing Run returns a value consistent with one
// of the two inputs, and every Run issued after both have finished returns the value of the
// NEW input (no stale memoised result survives the eviction).
func HarnessC33Evict() {
	pre := 2
	if zz.Tier() == 1 {
		pre = 3
	}
	par := 1 + zz.Choice(2)
	input := 1
	e := New(WithParallelism(int64(par)))
	ctx := context.Background()
	warm := zz.Choice(2) == 1
	if warm {
		r, _, err := Run(ctx, e, Query[int](zzTop{&input}))
		zz.Assert(err == nil && len(r) == 1 && r[0].Value == 2, "C33/warm-run-value")
	}
	zz.Schedule(pre)
	var wg sync.WaitGroup
	var mid []Result[int]
	var midErr error
	wg.Add(2)
	go func() {
		defer wg.Done()
		mid, _, midErr = Run(ctx, e, Query[int](zzTop{&input}))
	}()
	go func() {
		defer wg.Done()
		e.EvictWithCleanup([]any{"in"}, func() { input = 5 })
	}()
	wg.Wait()
	zz.Quiesce()
	zz.Assert(midErr == nil && len(mid) == 1 && mid[0].Fatal == nil, "C33/racing-run-succeeds")
	if midErr == nil && len(mid) == 1 {
		zz.Assert(mid[0].Value == 2 || mid[0].Value == 10, "C33/racing-run-sees-one-consistent-input")
	}
	fin, _, err := Run(ctx, e, Query[int](zzTop{&input}))
	zz.Assert(err == nil && len(fin) == 1 && fin[0].Fatal == nil, "C33/run-after-eviction-succeeds")
	if err == nil && len(fin) == 1 {
		zz.Assert(fin[0].Value == 10, "C33/run-after-eviction-sees-the-new-input")
	}
	zz.Reach("C33/evict-done")
}
