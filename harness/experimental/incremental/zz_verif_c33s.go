//go:build verif

package incremental

import (
	"context"
	"errors"
	"sync"

	zz "github.com/bufbuild/protocompile/internal/zzverif"
)

// zzB is like zzQ but resolves all its dependencies with ONE Resolve call, so the executor
// starts goroutines for all but the first of them (task.start async), elects leaders with
// CompareAndSwap and parks losers in waitUntilDone.
type zzB struct {
	i int
	g *zzGraph
}

func (q zzB) Key() any { return q.i }

func (q zzB) Execute(t *Task) (int, error) {
	g := q.g
	g.runs[q.i]++
	if g.panics[q.i] {
		panic("query panicked")
	}
	var deps []Query[int]
	for j := 0; j < g.n; j++ {
		if g.dep[q.i][j] {
			deps = append(deps, zzB{j, g})
		}
	}
	sum := 1
	if len(deps) > 0 {
		rs, err := Resolve(t, deps...)
		if err != nil {
			return 0, err
		}
		for _, r := range rs {
			if r.Fatal != nil {
				return 0, r.Fatal
			}
			sum += r.Value
		}
	}
	return sum, nil
}

// HarnessC33Sched: the real executor under EVERY goroutine schedule (bounded preemptions) for
// every DAG on n queries whose Execute resolves all dependencies in one batch, two Runs of
// the root issued concurrently from two goroutines with parallelism 1..2: both Runs return
// the value a fresh computation gives, every query executes exactly once overall (leader
// election), nothing deadlocks (a state with every goroutine blocked is reported), exactly
// the callers of one run see Changed, the permits are free afterwards, and a later Run
// recomputes nothing.
func HarnessC33Sched() {
	g := &zzGraph{n: 3}
	pre := 2 // (both tiers)
	for i := 0; i < g.n; i++ {
		for j := i + 1; j < g.n; j++ {
			g.dep[i][j] = zz.Bool()
		}
	}
	par := 1 + zz.Choice(2)
	two := zz.Choice(2) == 1
	zz.Schedule(pre)
	e := New(WithParallelism(int64(par)))
	ctx := context.Background()
	var res [2][]Result[int]
	var errs [2]error
	var wg sync.WaitGroup
	nrun := 1
	if two {
		nrun = 2
	}
	for k := 0; k < nrun; k++ {
		wg.Add(1)
		go func() {
			defer wg.Done()
			res[k], _, errs[k] = Run(ctx, e, Query[int](zzB{0, g}))
		}()
	}
	wg.Wait()
	want := g.wantB(0)
	changed := 0
	for k := 0; k < nrun; k++ {
		zz.Assert(errs[k] == nil && len(res[k]) == 1, "C33/concurrent-run-returns-no-error")
		if errs[k] != nil || len(res[k]) != 1 {
			return
		}
		zz.Assert(res[k][0].Fatal == nil && res[k][0].Value == want, "C33/concurrent-run-value-equals-fresh-computation")
		if res[k][0].Changed {
			changed++
		}
	}
	zz.Assert(changed == 1, "C33/exactly-the-computing-run-sees-changed")
	var reach [5]bool
	reach[0] = true
	for i := 0; i < g.n; i++ {
		for j := i + 1; j < g.n; j++ {
			if reach[i] && g.dep[i][j] {
				reach[j] = true
			}
		}
	}
	for i := 0; i < g.n; i++ {
		if reach[i] {
			zz.Assert(g.runs[i] == 1, "C33/each-reachable-query-executes-exactly-once")
		} else {
			zz.Assert(g.runs[i] == 0, "C33/unreachable-queries-do-not-execute")
		}
	}
	zz.Quiesce()
	free := e.sema.TryAcquire(int64(par))
	zz.Assert(free, "C33/all-permits-free-after-concurrent-runs")
	if free {
		e.sema.Release(int64(par))
	}
	r0 := g.runs
	res3, _, err := Run(ctx, e, Query[int](zzB{0, g}))
	zz.Assert(err == nil && len(res3) == 1 && res3[0].Value == want && !res3[0].Changed, "C33/later-run-is-memoised")
	zz.Assert(g.runs == r0, "C33/later-run-recomputes-nothing")
	zz.Reach("C33/sched-done")
}

func (g *zzGraph) wantB(i int) int {
	sum := 1
	for j := 0; j < g.n; j++ {
		if g.dep[i][j] {
			sum += g.wantB(j)
		}
	}
	return sum
}

// HarnessC34Sched: cycles and panics under every schedule (bounded preemptions): arbitrary
// dependency relation on n queries (self-loops and cycles included) resolved in batches, an
// arbitrary query panics: Run returns (no deadlock), with ErrCycle-class/ErrPanic errors
// exactly when a cycle / the panicking query is reachable, and all permits are free.
func HarnessC34Sched() {
	g := &zzGraph{n: 3}
	pre := 1 // (both tiers)
	for i := 0; i < g.n; i++ {
		for j := 0; j < g.n; j++ {
			g.dep[i][j] = zz.Bool()
		}
	}
	pk := zz.Choice(g.n + 1) // query that panics; n = none
	if pk < g.n {
		g.panics[pk] = true
	}
	par := 1 + zz.Choice(2)
	zz.Schedule(pre)
	e := New(WithParallelism(int64(par)))
	res, _, err := Run(context.Background(), e, Query[int](zzB{0, g}))
	var reach [5][5]bool
	for i := 0; i < g.n; i++ {
		for j := 0; j < g.n; j++ {
			reach[i][j] = g.dep[i][j]
		}
	}
	for m := 0; m < g.n; m++ {
		for i := 0; i < g.n; i++ {
			for j := 0; j < g.n; j++ {
				reach[i][j] = reach[i][j] || (reach[i][m] && reach[m][j])
			}
		}
	}
	cyc := false
	for w := 0; w < g.n; w++ {
		if reach[w][w] && (w == 0 || reach[0][w]) {
			cyc = true
		}
	}
	panicReach := pk < g.n && (pk == 0 || reach[0][pk])
	if !cyc && !panicReach {
		zz.Assert(err == nil && len(res) == 1 && res[0].Fatal == nil && res[0].Value == g.wantB(0), "C34/acyclic-run-succeeds")
	} else {
		failed := err != nil || (len(res) == 1 && res[0].Fatal != nil)
		zz.Assert(failed, "C34/cycle-or-panic-fails-the-run")
		if err != nil {
			var ep *ErrPanic
			zz.Assert(errors.As(err, &ep) == true && panicReach, "C34/run-error-is-ErrPanic-only-if-a-query-panicked")
		}
		if !panicReach && len(res) == 1 && res[0].Fatal != nil {
			var ec *ErrCycle
			zz.Assert(errors.As(res[0].Fatal, &ec), "C34/cycle-is-reported-as-ErrCycle")
		}
	}
	zz.Quiesce()
	free := e.sema.TryAcquire(int64(par))
	zz.Assert(free, "C34/all-permits-free-after-run")
	zz.Reach("C34/sched-done")
}
