//go:build verif

package incremental

import (
	"context"
	"errors"

	zz "github.com/bufbuild/protocompile/internal/zzverif"
)

// zzCQ is a query over an arbitrary (possibly cyclic) dependency relation on n queries;
// a query may panic or fail. One query per Resolve call, so execution is sequential.
type zzCQ struct {
	i int
	g *zzGraph
}

func (q zzCQ) Key() any { return q.i }

func (q zzCQ) Execute(t *Task) (int, error) {
	g := q.g
	g.runs[q.i]++
	if g.runs[q.i] > 8 {
		panic("zz: runaway re-execution")
	}
	if g.panics[q.i] {
		panic("query panicked")
	}
	sum := 1
	for j := 0; j < g.n; j++ {
		if g.dep[q.i][j] {
			r, err := Resolve(t, Query[int](zzCQ{j, g}))
			if err != nil {
				return 0, err
			}
			if r[0].Fatal != nil {
				return 0, r[0].Fatal
			}
			sum += r[0].Value
		}
	}
	if g.fails[q.i] {
		return 0, errors.New("query failed")
	}
	return sum, nil
}

// HarnessC34Run: the real executor on every dependency relation over 3 queries (cycles and
// self-dependencies included), each query possibly panicking. A run returns; a query whose
// dependencies lead back to it fails with a cycle error; a reachable panicking query makes
// the run fail with ErrPanic carrying the value, is not cached (the next run executes it
// again), and after every run all semaphore permits are free.
func HarnessC34Run() {
	const par = 2
	g := &zzGraph{n: 3}
	for i := 0; i < g.n; i++ {
		for j := 0; j < g.n; j++ {
			g.dep[i][j] = zz.Bool()
		}
		g.panics[i] = zz.Bool()
	}
	// reference: reach[i][j] = path of length >= 1; execution order is the DFS from 0 that
	// stops at the first failure, so only two facts are asserted from the reference:
	// "no cycle and no panic reachable => plain success" and the error class otherwise.
	var reach [5][5]bool
	for i := 0; i < g.n; i++ {
		for j := 0; j < g.n; j++ {
			reach[i][j] = g.dep[i][j]
		}
	}
	for m := 0; m < g.n; m++ {
		for i := 0; i < g.n; i++ {
			for j := 0; j < g.n; j++ {
				reach[i][j] = reach[i][j] || (reach[i][m] && reach[m][j])
			}
		}
	}
	cyc, pan := false, g.panics[0]
	if reach[0][0] {
		cyc = true
	}
	for j := 1; j < g.n; j++ {
		if reach[0][j] {
			if reach[j][j] {
				cyc = true
			}
			if g.panics[j] {
				pan = true
			}
		}
	}
	e := New(WithParallelism(par))
	ctx := context.Background()
	res, _, err := Run(ctx, e, Query[int](zzCQ{0, g}))
	zz.Assert(e.sema.TryAcquire(par), "C34/all-permits-free-after-run")
	e.sema.Release(par)
	if !cyc && !pan {
		zz.Assert(err == nil && len(res) == 1 && res[0].Fatal == nil, "C34/acyclic-panic-free-run-succeeds")
		zz.Reach("C34/clean-run")
		return
	}
	if err != nil {
		var ep *ErrPanic
		isPanic := errors.As(err, &ep)
		zz.Assert(isPanic, "C34/run-error-is-a-panic-error")
		zz.Assert(pan, "C34/panic-error-only-if-a-reachable-query-panics")
		if isPanic {
			s, ok := ep.Panic.(string)
			zz.Assert(ok && s == "query panicked", "C34/panic-error-carries-the-value")
		}
		// not cached: the panicking query runs again on the next run
		var before [5]int = g.runs
		// Recorded finding C34/panic-cached-in-caller: the panicking query is not the root; its
		// (transitive) caller completed with the cancellation error as its Fatal value and that
		// failure is memoised, so the next run neither re-executes the panicking query nor fails
		// at run level: it returns the stale error through Result.Fatal.
		zz.KnownFor("C34/panic-cached-in-caller", !g.panics[0], "C34/panicking-query-executes-again")
		res2, _, err2 := Run(ctx, e, Query[int](zzCQ{0, g}))
		zz.Assert(err2 != nil || (len(res2) == 1 && res2[0].Fatal != nil), "C34/panic-is-not-cached-as-success")
		again := false
		for i := 0; i < g.n; i++ {
			if g.panics[i] && g.runs[i] > before[i] {
				again = true
			}
		}
		zz.Assert(again, "C34/panicking-query-executes-again")
		zz.Assert(e.sema.TryAcquire(par), "C34/all-permits-free-after-run")
		e.sema.Release(par)
		zz.Reach("C34/panic-run")
		return
	}
	// no run-level error: then the failure must be a cycle reported through Fatal
	zz.Assert(len(res) == 1 && res[0].Fatal != nil, "C34/cyclic-run-reports-a-fatal-error")
	if len(res) == 1 && res[0].Fatal != nil {
		var ce *ErrCycle
		zz.Assert(errors.As(res[0].Fatal, &ce), "C34/fatal-error-is-a-cycle-error")
		zz.Assert(cyc, "C34/cycle-error-only-if-a-cycle-is-reachable")
		zz.Reach("C34/cycle-run")
	}
}
