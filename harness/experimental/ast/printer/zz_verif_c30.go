//go:build verif

package printer

import (
	"unicode/utf8"

	"github.com/bufbuild/protocompile/experimental/parser"
	"github.com/bufbuild/protocompile/experimental/report"
	"github.com/bufbuild/protocompile/experimental/source"
	zz "github.com/bufbuild/protocompile/internal/zzverif"
)

var zzC30Prefixes = []string{
	"",
	"message M {}",
	"message M {}\n",
	"// c\nmessage M {}\n",
	"message M { int32 x = 1; }\n",
	"syntax = \"proto3\";\n",
	"enum E { A = 0; }",
	"import \"a.proto\";\n\n",
}

// HarnessC30: for every text made of a concrete prefix followed by 0..2 arbitrary bytes
// that the experimental parser accepts without any error diagnostic, printing the file in
// round-trip mode (Options{}) reproduces the text byte for byte.
func HarnessC30() {
	pi := zz.Choice(len(zzC30Prefixes))
	p := zzC30Prefixes[pi]
	k := 1
	if zz.Tier() == 1 && pi < 3 {
		k = 2 // (two arbitrary bytes after the three shortest prefixes only)
	}
	text := p + zz.String(zz.IntRange(0, k))
	zz.Assume(utf8.ValidString(text))
	if len(text) >= 2 {
		zz.Assume(zz.And(text[0] != 0, text[1] != 0))
	}
	r := &report.Report{}
	file, ok := parser.Parse("zz.proto", source.NewFile("zz.proto", text), r)
	if !ok {
		return
	}
	for i := range r.Diagnostics {
		if r.Diagnostics[i].Level() <= report.Error {
			return
		}
	}
	zz.Reach("C30/accepted")
	// Recorded finding C30/trailing-newline-normalised: the text does not end in exactly one
	// newline (none, or more than one): the renderer appends or collapses trailing newlines.
	n := len(text)
	endsOne := n >= 1 && text[n-1] == '\n' && (n < 2 || text[n-2] != '\n')
	zz.Known("C30/trailing-newline-normalised", !endsOne)
	out, err := PrintFile(Options{}, file)
	zz.Assert(err == nil, "C30/print-succeeds")
	if err == nil {
		zz.ObsStr(out)
		zz.Assert(zz.EqStr(out, text), "C30/round-trip-reproduces-the-source")
	}
}
