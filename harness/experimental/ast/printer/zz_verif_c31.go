//go:build verif

package printer

import (
	"unicode/utf8"

	"github.com/bufbuild/protocompile/experimental/parser"
	"github.com/bufbuild/protocompile/experimental/report"
	"github.com/bufbuild/protocompile/experimental/source"
	zz "github.com/bufbuild/protocompile/internal/zzverif"
)

func zzParseClean(text string) (ok bool, out string) {
	r := &report.Report{}
	file, pok := parser.Parse("zz.proto", source.NewFile("zz.proto", text), r)
	if !pok {
		return false, ""
	}
	for i := range r.Diagnostics {
		if r.Diagnostics[i].Level() <= report.Error {
			return false, ""
		}
	}
	s, err := PrintFile(Options{Format: true}, file)
	if err != nil {
		return false, ""
	}
	return true, s
}

// HarnessC31Idem: formatting is idempotent: for every template text the experimental parser
// accepts, the formatted output parses again without errors and formatting it again
// changes nothing.
func HarnessC31Idem() {
	pi := zz.Choice(len(zzC30Prefixes))
	p := zzC30Prefixes[pi]
	k := 1
	if zz.Tier() == 1 && pi < 3 {
		k = 2 // (two arbitrary bytes after the three shortest prefixes only)
	}
	text := p + zz.String(zz.IntRange(0, k))
	zz.Assume(utf8.ValidString(text))
	if len(text) >= 2 {
		zz.Assume(zz.And(text[0] != 0, text[1] != 0))
	}
	ok, f1 := zzParseClean(text)
	if !ok {
		return
	}
	zz.Reach("C31/formatted-once")
	// Recorded finding C31/only-empty-declarations: the whole file consists of empty
	// declarations (';') and whitespace.
	kn := p == "" && len(text) > 0
	semi := false
	for i := 0; i < len(text); i++ {
		c := text[i]
		kn = zz.And(kn, zz.Or(c == ';', zz.Or(c == ' ', zz.Or(c == '\n', zz.Or(c == '\t', zz.Or(c == '\r', zz.Or(c == '\f', c == '\v')))))))
		semi = zz.Or(semi, c == ';')
	}
	zz.Known("C31/only-empty-declarations", zz.And(kn, semi))
	ok2, f2 := zzParseClean(f1)
	zz.Assert(ok2, "C31/formatted-output-parses-without-errors")
	if ok2 {
		zz.Assert(zz.EqStr(f2, f1), "C31/formatting-twice-changes-nothing")
	}
}
