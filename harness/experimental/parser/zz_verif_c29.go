//go:build verif

package parser

import (
	"unicode/utf8"

	"github.com/bufbuild/protocompile/experimental/report"
	"github.com/bufbuild/protocompile/experimental/source"
	zz "github.com/bufbuild/protocompile/internal/zzverif"
)

// HarnessC29Tile: with the real Protobuf lexer configuration, for every text of up to N
// arbitrary bytes: no ICE diagnostic, the natural tokens are contiguous from offset 0, each
// token's text is the input text of its span, and the last token ends at len(text).
func HarnessC29Tile() {
	maxN := 2
	if zz.Tier() == 1 {
		maxN = 2
	}
	n := zz.IntRange(0, maxN)
	zzC29Body(zz.String(n))
}

var zzXPrefixes = []string{
	"//",            // line comment
	"//c\r",         // line comment ending in CR
	"/*",            // block comment start
	"a\xe2\x80",     // identifier followed by a partial 3-byte rune (U+2000..U+203F: format characters)
	"\"\\x",         // string with a hex escape being started
	"\"\\u12",       // string with a unicode escape being started
	"'\\",           // string ending in a backslash
	"1",             // number
	"1.",            // number with fraction
	"0x",            // hex number
	"(",             // open bracket
	"a ",            // identifier and space
}

// HarnessC29Tmpl: the same assertions on longer inputs: a concrete prefix followed by 0..1
// (quick) / 0..2 (thorough) arbitrary bytes.
func HarnessC29Tmpl() {
	p := zzXPrefixes[zz.Choice(len(zzXPrefixes))]
	k := 1
	if zz.Tier() == 1 {
		k = 2
	}
	zzC29Body(p + zz.String(zz.IntRange(0, k)))
}

func zzC29Body(text string) {
	n := len(text)
	// texts the lexer's prelude rejects wholesale (not UTF-8, or looking like UTF-16: a NUL in
	// the first two bytes) produce one diagnostic and no tokens by design: outside the claim
	zz.Assume(utf8.ValidString(text))
	if n >= 2 {
		zz.Assume(zz.And(text[0] != 0, text[1] != 0))
	}
	r := &report.Report{}
	stream := lex.Lex(source.NewFile("zz.proto", text), r)
	for i := range r.Diagnostics {
		zz.Assert(r.Diagnostics[i].Level() != report.ICE, "C29/no-internal-compiler-error")
		sp := r.Diagnostics[i].Primary()
		if sp.File != nil {
			zz.Assert(zz.And(0 <= sp.Start, zz.And(sp.Start <= sp.End, sp.End <= n)), "C29/diagnostic-span-inside-file")
		}
	}
	prev := 0
	cnt := 0
	for tok := range stream.All() {
		if tok.IsSynthetic() {
			continue
		}
		cnt++
		if cnt > n+2 {
			break
		}
		sp := tok.LeafSpan()
		zz.Assert(sp.Start == prev, "C29/tokens-contiguous")
		if sp.Start < 0 || sp.End > n || sp.Start > sp.End {
			zz.Assert(false, "C29/token-span-inside-input")
			return
		}
		zz.Assert(zz.EqStr(tok.Text(), text[sp.Start:sp.End]), "C29/token-text-is-input-text")
		prev = sp.End
	}
	zz.Assert(prev == n, "C29/tokens-cover-the-whole-input")
	if n > 0 {
		zz.Reach("C29/nonempty")
	}
}
