//go:build verif

package parser

import (
	"unicode/utf8"

	"github.com/bufbuild/protocompile/experimental/report"
	"github.com/bufbuild/protocompile/experimental/source"
	zz "github.com/bufbuild/protocompile/internal/zzverif"
)

// HarnessC28Lex: the real experimental lexer (the Protobuf configuration used by Parse) on
// every text of up to N bytes that passes the lexer's prelude: no internal compiler error,
// no escaping panic, every diagnostic's primary span inside the file.
// (The experimental parser proper is not executed: its arena-based AST uses unsafe idioms
// the VM does not model; see DESIGN.md.)
func HarnessC28Lex() {
	n := zz.IntRange(0, 2)
	zzC28Body(zz.String(n))
}

// HarnessC28LexTmpl: the same assertions on a concrete prefix (zzXPrefixes) followed by 0..1
// (quick) / 0..2 (thorough) arbitrary bytes.
func HarnessC28LexTmpl() {
	p := zzXPrefixes[zz.Choice(len(zzXPrefixes))]
	k := 1
	if zz.Tier() == 1 {
		k = 2
	}
	zzC28Body(p + zz.String(zz.IntRange(0, k)))
}

func zzC28Body(text string) {
	n := len(text)
	zz.Assume(utf8.ValidString(text))
	if n >= 2 {
		zz.Assume(zz.And(text[0] != 0, text[1] != 0))
	}
	r := &report.Report{}
	_ = lex.Lex(source.NewFile("zz.proto", text), r)
	for i := range r.Diagnostics {
		d := &r.Diagnostics[i]
		zz.Assert(d.Level() != report.ICE, "C28/no-internal-compiler-error")
		sp := d.Primary()
		if sp.File != nil {
			zz.Assert(zz.And(0 <= sp.Start, zz.And(sp.Start <= sp.End, sp.End <= n)), "C28/diagnostic-span-inside-file")
		}
	}
	if n > 0 {
		zz.Reach("C28/nonempty-text")
	}
}
