//go:build verif

package parser

import (
	"unicode/utf8"

	"github.com/bufbuild/protocompile/experimental/report"
	"github.com/bufbuild/protocompile/experimental/source"
	zz "github.com/bufbuild/protocompile/internal/zzverif"
)

// HarnessC28Parse: the real experimental lexer AND parser (Parse) on every prelude-accepted
// text of up to 2 bytes, and on concrete prefixes followed by one arbitrary byte: no internal
// compiler error, no escaping panic, success reported exactly when no diagnostic is at level
// Error or worse, every diagnostic's primary span inside the file.
var zzPPrefixes = []string{
	"message M {",
	"message M { reserved 5, \"a\",",
	"message M { reserved \"a\", 5",
	"message M { extensions 1 to",
	"message M { int32 x = 1 [",
	"message M { map<",
	"enum E { A = 1",
	"service S { rpc M(",
	"import \"a\"",
	"option x = ",
	"package a.",
	"syntax = ",
}

func HarnessC28Parse() {
	var text string
	if zz.Bool() {
		m := 1
		if zz.Tier() == 1 {
			m = 2
		}
		text = zz.String(zz.IntRange(0, m))
	} else {
		p := zzPPrefixes[zz.Choice(len(zzPPrefixes))]
		text = p + zz.String(zz.IntRange(0, 1))
	}
	n := len(text)
	zz.Assume(utf8.ValidString(text))
	if n >= 2 {
		zz.Assume(zz.And(text[0] != 0, text[1] != 0))
	}
	r := &report.Report{}
	_, ok := Parse("zz.proto", source.NewFile("zz.proto", text), r)
	bad := false
	for i := range r.Diagnostics {
		d := &r.Diagnostics[i]
		zz.Assert(d.Level() != report.ICE, "C28/parser-no-internal-compiler-error")
		if d.Level() <= report.Error {
			bad = true
		}
		sp := d.Primary()
		if sp.File != nil {
			zz.Assert(zz.And(0 <= sp.Start, zz.And(sp.Start <= sp.End, sp.End <= n)), "C28/parser-diagnostic-span-inside-file")
		}
	}
	zz.Assert(ok == !bad, "C28/parse-success-iff-no-error-diagnostic")
	zz.Reach("C28/parsed-text")
}
