//go:build verif

package parser

import (
	"github.com/bufbuild/protocompile/experimental/ast"
	"github.com/bufbuild/protocompile/experimental/report"
	"github.com/bufbuild/protocompile/experimental/source"
	zz "github.com/bufbuild/protocompile/internal/zzverif"
)

var zzLevels []report.Level

// zzParseStub replaces the package-level parse(file, report) under the VM: it reports an
// arbitrary list of diagnostics (levels chosen by the harness) and nothing else.
func zzParseStub(file *ast.File, r *report.Report) {
	for _, l := range zzLevels {
		r.Levelf(l, "diagnostic")
	}
}

// HarnessC28Flag: Parse's success flag is true exactly when no diagnostic at level Error
// or worse (ICE) was produced, for every list of up to 3 diagnostics with arbitrary levels.
func HarnessC28Flag() {
	n := zz.IntRange(0, 3)
	zzLevels = nil
	worst := false
	for i := 0; i < n; i++ {
		l := report.Level(zz.Byte())
		zz.Assume(zz.And(l >= report.ICE, l <= report.Remark))
		zzLevels = append(zzLevels, l)
		worst = zz.Or(worst, l <= report.Error)
	}
	r := &report.Report{}
	_, ok := Parse("a.proto", source.NewFile("a.proto", ""), r)
	zz.Assert(len(r.Diagnostics) == n, "C28/diagnostics-collected")
	zz.Assert(zz.Iff(ok, !worst), "C28/success-iff-no-error-diagnostic")
	zz.Reach("C28/parsed")
}
