//go:build verif

package source

import (
	"unicode/utf8"

	"github.com/bufbuild/protocompile/experimental/source/length"
	zz "github.com/bufbuild/protocompile/internal/zzverif"
)

// HarnessC32: for every valid UTF-8 text of n bytes, every offset on a character boundary
// (including EOF) and each of the units Bytes, UTF16, Runes:
// InverseLocation(Location(off)) == off, and Location(off).Line == 1 + #'\n' before off.
func HarnessC32() {
	maxN := 3
	if zz.Tier() == 1 {
		maxN = 6
	}
	n := zz.IntRange(0, maxN)
	text := zz.String(n)
	zz.Assume(utf8.ValidString(text))
	off := zz.IntRange(0, n)
	if off < n {
		zz.Assume(utf8.RuneStart(text[off]))
	}
	unit := length.Unit(zz.Choice(3)) // Bytes, UTF16, Runes
	f := NewFile("f", text)
	loc := f.Location(off, unit)
	zz.Obs(uint64(loc.Line))
	zz.Obs(uint64(loc.Column))
	line := 1
	for i := 0; i < off; i++ {
		line = zz.IteInt(text[i] == '\n', line+1, line)
	}
	zz.Assert(loc.Line == line, "C32/line")
	zz.Assert(loc.Offset == off, "C32/forward-offset")
	inv := f.InverseLocation(loc.Line, loc.Column, unit)
	zz.Obs(uint64(inv.Offset))
	zz.Assert(inv.Offset == off, "C32/roundtrip")
	if off == n && n > 0 {
		zz.Reach("C32/eof-offset")
	}
}
