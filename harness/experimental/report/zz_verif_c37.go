//go:build verif

package report

import (
	"google.golang.org/protobuf/proto"

	"github.com/bufbuild/protocompile/experimental/source"
	compilerpb "github.com/bufbuild/protocompile/internal/gen/buf/compiler/v1alpha1"
	zz "github.com/bufbuild/protocompile/internal/zzverif"
)

func zzCopyReport(dst, src *compilerpb.Report) {
	// The wire round trip of compilerpb.Report is assumed to be the identity: the
	// deserializer hands AppendFromProto a structural copy.
	for _, f := range src.Files {
		dst.Files = append(dst.Files, &compilerpb.Report_File{Path: f.Path, Text: append([]byte(nil), f.Text...)})
	}
	for _, d := range src.Diagnostics {
		nd := &compilerpb.Diagnostic{Message: d.Message, Tag: d.Tag, Level: d.Level, InFile: d.InFile,
			Notes: append([]string(nil), d.Notes...), Help: append([]string(nil), d.Help...), Debug: append([]string(nil), d.Debug...)}
		for _, a := range d.Annotations {
			na := &compilerpb.Diagnostic_Annotation{File: a.File, Start: a.Start, End: a.End, Message: a.Message, Primary: a.Primary, PageBreak: a.PageBreak}
			for _, e := range a.Edits {
				na.Edits = append(na.Edits, &compilerpb.Diagnostic_Edit{Start: e.Start, End: e.End, Replace: e.Replace})
			}
			nd.Annotations = append(nd.Annotations, na)
		}
		dst.Diagnostics = append(dst.Diagnostics, nd)
	}
}

// HarnessC37: ToProto followed by AppendFromProto preserves every diagnostic of a report
// whose annotations lie within their files.
func HarnessC37() {
	nf := zz.IntRange(1, 2)
	files := make([]*source.File, nf)
	paths := []string{"a.proto", "b.proto"}
	for i := range files {
		files[i] = source.NewFile(paths[i], zz.String(zz.IntRange(0, 2)))
	}
	maxD := 1
	if zz.Tier() == 1 {
		maxD = 2
	}
	nd := zz.IntRange(1, maxD)
	r := &Report{}
	tags := []string{"", "t1"}
	for i := 0; i < nd; i++ {
		d := Diagnostic{message: "msg", tag: tags[zz.Choice(2)], level: Level(1 + zz.Choice(4 - 2*(nd-1)))}
		if zz.Bool() {
			d.notes = []string{"note"}
			d.help = []string{"help1", "help2"}
			d.debug = []string{"dbg"}
		}
		maxA := 2
		if nd == 2 {
			maxA = 1 // (two diagnostics: at most one annotation each, to keep the product in reach)
		}
		na := zz.IntRange(0, maxA)
		if na == 0 {
			d.inFile = "c.proto"
		}
		for j := 0; j < na; j++ {
			f := files[zz.Choice(nf)]
			start, end := zz.Int(), zz.Int()
			zz.Assume(zz.And(zz.And(0 <= start, start <= end), end <= len(f.Text())))
			sn := snippet{Span: source.Span{File: f, Start: start, End: end}, message: "ann", primary: j == 0, pageBreak: zz.Bool()}
			if zz.Bool() {
				es, ee := zz.Int(), zz.Int()
				zz.Assume(zz.And(zz.And(0 <= es, es <= ee), ee <= end-start))
				sn.edits = []Edit{{Start: es, End: ee, Replace: "x"}}
			}
			d.snippets = append(d.snippets, sn)
		}
		r.Diagnostics = append(r.Diagnostics, d)
	}

	p := r.ToProto().(*compilerpb.Report)
	var r2 Report
	err := r2.AppendFromProto(func(m proto.Message) error {
		zzCopyReport(m.(*compilerpb.Report), p)
		return nil
	})
	zz.Assert(err == nil, "C37/decode-succeeds")
	if err != nil {
		return
	}
	zz.Reach("C37/decoded")
	zz.Assert(len(r2.Diagnostics) == len(r.Diagnostics), "C37/diagnostic-count")
	if len(r2.Diagnostics) != len(r.Diagnostics) {
		return
	}
	for i := range r.Diagnostics {
		a, b := &r.Diagnostics[i], &r2.Diagnostics[i]
		zz.Assert(a.message == b.message && a.tag == b.tag && a.inFile == b.inFile, "C37/message-tag-infile")
		zz.Assert(a.level == b.level, "C37/level")
		zz.Assert(len(a.notes) == len(b.notes) && len(a.help) == len(b.help) && len(a.debug) == len(b.debug), "C37/notes-help-debug")
		zz.Assert(len(a.snippets) == len(b.snippets), "C37/annotation-count")
		if len(a.snippets) != len(b.snippets) {
			return
		}
		for j := range a.snippets {
			x, y := &a.snippets[j], &b.snippets[j]
			zz.Assert(x.Path() == y.Path(), "C37/file-path")
			zz.Assert(zz.EqStr(x.File.Text(), y.File.Text()), "C37/file-text")
			zz.Assert(zz.And(x.Start == y.Start, x.End == y.End), "C37/span")
			zz.Assert(x.message == y.message && x.primary == y.primary, "C37/annotation-message-primary")
			zz.Assert(x.pageBreak == y.pageBreak, "C37/page-break")
			zz.Assert(len(x.edits) == len(y.edits), "C37/edit-count")
			if len(x.edits) == len(y.edits) {
				for k := range x.edits {
					zz.Assert(zz.And(x.edits[k].Start == y.edits[k].Start, x.edits[k].End == y.edits[k].End), "C37/edit-span")
					zz.Assert(x.edits[k].Replace == y.edits[k].Replace, "C37/edit-replace")
				}
			}
		}
	}
}
