//go:build verif

package report

import (
	"github.com/bufbuild/protocompile/experimental/source"
	zz "github.com/bufbuild/protocompile/internal/zzverif"
)

type zzDiagKey struct {
	file      int
	sortOrder int
	start     int
	end       int
	tag       int
	msg       int
	level     int
	note      bool
}

func zzMkDiag(files []*source.File, k zzDiagKey) Diagnostic {
	tags := []string{"", "t1", "t2"}
	msgs := []string{"m1", "m2"}
	d := Diagnostic{tag: tags[k.tag], message: msgs[k.msg], level: Level(k.level), sortOrder: k.sortOrder}
	if k.note {
		d.notes = []string{"note"}
	}
	d.snippets = []snippet{{Span: source.Span{File: files[k.file], Start: k.start, End: k.end}, primary: true}}
	return d
}

func zzSameDiag(a, b *Diagnostic) bool {
	pa, pb := a.Primary(), b.Primary()
	r := a.tag == b.tag && a.message == b.message && pa.File == pb.File && len(a.notes) == len(b.notes)
	return zz.And(r, zz.And(zz.And(a.level == b.level, a.sortOrder == b.sortOrder), zz.And(pa.Start == pb.Start, pa.End == pb.End)))
}

// HarnessC36: Canonicalize gives the same list for every order of the same diagnostics and
// is idempotent.
func HarnessC36() {
	n := 2
	if zz.Tier() == 1 {
		n = 3
	}
	files := []*source.File{source.NewFile("a.proto", "abcd"), source.NewFile("b.proto", "abcd")}
	keys := make([]zzDiagKey, n)
	for i := range keys {
		var k zzDiagKey
		if n == 3 {
			// (three diagnostics: fewer concrete alternatives per diagnostic to keep the product in reach)
			k = zzDiagKey{file: zz.Choice(2), tag: zz.Choice(2), msg: 0, level: 2 + zz.Choice(2), note: i == 0 && zz.Bool()}
		} else {
			k = zzDiagKey{file: zz.Choice(2), tag: zz.Choice(3), msg: zz.Choice(2), level: 2 + zz.Choice(2), note: zz.Bool()}
		}
		k.sortOrder = int(int8(zz.Byte()))
		zz.Assume(zz.And(k.sortOrder >= -1, k.sortOrder <= 1))
		k.start, k.end = int(zz.Byte()), int(zz.Byte())
		zz.Assume(zz.And(k.start <= k.end, k.end <= 2))
		keys[i] = k
	}
	// Recorded finding (C36/tie-on-sort-keys): two diagnostics equal on all six sort keys but
	// different in a field the comparator ignores (level, notes).
	tie := false
	for i := 0; i < n; i++ {
		for j := i + 1; j < n; j++ {
			a, b := keys[i], keys[j]
			same6 := zz.And(a.file == b.file && a.tag == b.tag && a.msg == b.msg, zz.And(a.sortOrder == b.sortOrder, zz.And(a.start == b.start, a.end == b.end)))
			differ := zz.Or(a.level != b.level, a.note != b.note)
			tie = zz.Or(tie, zz.And(same6, differ))
		}
	}
	zz.Known("C36/tie-on-sort-keys", tie)

	// a permutation of 0..n-1
	perms := [][]int{{0, 1, 2}, {1, 0, 2}, {0, 2, 1}, {2, 1, 0}, {1, 2, 0}, {2, 0, 1}}
	np := 2
	if n == 3 {
		np = 6
	}
	perm := perms[1+zz.Choice(np-1)]
	r1, r2 := &Report{}, &Report{}
	for i := 0; i < n; i++ {
		r1.Diagnostics = append(r1.Diagnostics, zzMkDiag(files, keys[i]))
	}
	for i := 0; i < n; i++ {
		pi := perm[i]
		if pi >= n {
			pi = i
		}
		r2.Diagnostics = append(r2.Diagnostics, zzMkDiag(files, keys[pi]))
	}
	r1.Canonicalize()
	r2.Canonicalize()
	zz.Obs(uint64(len(r1.Diagnostics)))
	zz.Assert(len(r1.Diagnostics) == len(r2.Diagnostics), "C36/permutation-invariant-length")
	if len(r1.Diagnostics) == len(r2.Diagnostics) {
		for i := range r1.Diagnostics {
			zz.Assert(zzSameDiag(&r1.Diagnostics[i], &r2.Diagnostics[i]), "C36/permutation-invariant-content")
		}
	}
	// idempotence
	before := append([]Diagnostic(nil), r1.Diagnostics...)
	r1.Canonicalize()
	zz.Assert(len(r1.Diagnostics) == len(before), "C36/idempotent-length")
	if len(r1.Diagnostics) == len(before) {
		for i := range before {
			zz.Assert(zzSameDiag(&r1.Diagnostics[i], &before[i]), "C36/idempotent-content")
		}
	}
	zz.Reach("C36/done")
}
