//go:build verif

package internal

import (
	zz "github.com/bufbuild/protocompile/internal/zzverif"
)

func zzIdentByte(b byte) bool {
	return zz.Or(zz.Or(zz.And(b >= 'a', b <= 'z'), zz.And(b >= 'A', b <= 'Z')), zz.Or(zz.And(b >= '0', b <= '9'), b == '_'))
}

// zzRefCamel transcribes protoc's ToJsonName / ToCamelCase (descriptor.cc): drop every '_'
// and upper-case (ASCII) the byte following one; capFirst starts in "capitalize" state.
// It returns the result as a byte slice of symbolic bytes plus its (symbolic) length.
func zzRefCamel(name string, capFirst bool) ([]byte, int) {
	out := make([]byte, len(name))
	n := 0
	capNext := capFirst
	for i := 0; i < len(name); i++ {
		c := name[i]
		under := c == '_'
		up := zz.IteByte(zz.And(capNext, zz.And(c >= 'a', c <= 'z')), c-32, c)
		// write up at position n when !under
		for j := range out {
			out[j] = zz.IteByte(zz.And(!under, n == j), up, out[j])
		}
		n = zz.IteInt(under, n, n+1)
		capNext = under
	}
	return out, n
}

func zzMatches(got string, ref []byte, n int, suffix string) bool {
	ok := len(got) == n+len(suffix)
	r := ok
	for j := 0; j < len(got) && j < len(ref); j++ {
		r = zz.And(r, zz.Or(j >= n, got[j] == ref[j]))
	}
	return r
}

// HarnessC02JSONName: JSONName and MapEntry agree with protoc's algorithms for every
// identifier of up to N bytes over [A-Za-z0-9_].
func HarnessC02JSONName() {
	maxN := 4
	if zz.Tier() == 1 {
		maxN = 8
	}
	n := zz.IntRange(1, maxN)
	name := zz.String(n)
	for i := 0; i < n; i++ {
		zz.Assume(zzIdentByte(name[i]))
	}
	got := JSONName(name)
	zz.ObsStr(got)
	ref, rn := zzRefCamel(name, false)
	zz.Assert(zzMatches(got, ref, rn, ""), "C02/json-name")

	me := MapEntry(name)
	zz.ObsStr(me)
	ref2, rn2 := zzRefCamel(name, true)
	zz.Assert(zzMatches(me, ref2, rn2, "Entry"), "C02/map-entry-name")
	if len(me) >= 5 {
		zz.Assert(me[len(me)-5:] == "Entry", "C02/map-entry-suffix")
	}
	zz.Reach("C02/done")
}
