//go:build verif

package trie

import (
	zz "github.com/bufbuild/protocompile/internal/zzverif"
)

func zzIsPrefix(k, q string) bool {
	if len(k) > len(q) {
		return false
	}
	return zz.EqStr(k, q[:len(k)])
}

// HarnessC41Trie: k inserted keys of 0..2 arbitrary bytes, a query of 0..3 arbitrary bytes.
func HarnessC41Trie() {
	maxK := 2
	if zz.Tier() == 1 {
		maxK = 3
	}
	nk := zz.IntRange(0, maxK)
	keys := make([]string, nk)
	var t Trie[int]
	for i := range keys {
		keys[i] = zz.String(zz.IntRange(0, 2))
		t.Insert(keys[i], i+1)
	}
	q := zz.String(zz.IntRange(0, 3))

	// reference: longest inserted key that is a prefix of q, with its latest value
	bestLen, bestVal := -1, 0
	for i, k := range keys {
		better := zz.And(zzIsPrefix(k, q), len(k) >= bestLen)
		bestLen = zz.IteInt(better, len(k), bestLen)
		bestVal = zz.IteInt(better, i+1, bestVal)
	}
	prefix, val := t.Get(q)
	zz.ObsStr(prefix)
	zz.Obs(uint64(val))
	zz.Assert(zz.Implies(bestLen == -1, zz.And(len(prefix) == 0, val == 0)), "C41/trie-get-none")
	zz.Assert(zz.Implies(bestLen >= 0, zz.And(len(prefix) == bestLen, val == bestVal)), "C41/trie-get-longest-prefix")
	zz.Assert(zzIsPrefix(prefix, q), "C41/trie-get-returns-a-prefix-of-the-query")

	// Prefixes: all inserted keys prefixing q, increasing length, latest values
	want := 0
	for L := 0; L <= len(q); L++ {
		has := false
		for _, k := range keys {
			if len(k) == L {
				has = zz.Or(has, zzIsPrefix(k, q))
			}
		}
		want = zz.IteInt(has, want+1, want)
	}
	got := 0
	last := -1
	for p, v := range t.Prefixes(q) {
		got++
		zz.Assert(len(p) > last, "C41/trie-prefixes-increasing")
		last = len(p)
		zz.Assert(zzIsPrefix(p, q), "C41/trie-prefixes-are-prefixes")
		// value = latest inserted value for that key; and the key was inserted
		lv := 0
		for i, k := range keys {
			lv = zz.IteInt(zz.And(len(k) == len(p), zz.EqStr(k, p)), i+1, lv)
		}
		zz.Assert(zz.And(lv != 0, v == lv), "C41/trie-prefixes-value")
		if got > 8 {
			break
		}
	}
	zz.Assert(got == want, "C41/trie-prefixes-complete")
	if nk > 0 {
		zz.Reach("C41/trie-nonempty")
	}
}
