//go:build verif

package intern

import (
	zz "github.com/bufbuild/protocompile/internal/zzverif"
)

// HarnessC38Table: sequential use of a Table with two arbitrary strings of up to 7 bytes
// (so both inlined and table-stored strings occur): Value(Intern(s)) == s, two strings get
// the same ID exactly when they are equal, Query reports a string as present exactly when it
// is inlinable or was interned before, and InternBytes behaves like Intern even when the
// caller's buffer is overwritten afterwards.
func HarnessC38Table() {
	var t Table
	n1 := zz.IntRange(0, 7)
	n2 := zz.IntRange(0, 7)
	b1 := zz.Bytes(n1)
	s2 := zz.String(n2)
	s1 := string(b1)
	_, inl1 := encodeChar6(s1)
	_, inl2 := encodeChar6(s2)

	_, present := t.Query(s1)
	zz.Assert(present == inl1, "C38/query-before-intern-iff-inlinable")

	buf := append([]byte(nil), b1...)
	id1 := t.InternBytes(buf)
	for i := range buf {
		buf[i] = 'Z' // the caller reuses its buffer
	}
	zz.Assert(zz.EqStr(t.Value(id1), s1), "C38/value-of-intern-is-the-string")
	q1, ok1 := t.Query(s1)
	zz.Assert(ok1 && q1 == id1, "C38/query-after-intern-finds-the-id")

	_, present2 := t.Query(s2)
	zz.Assert(zz.Iff(present2, zz.Or(inl2, zz.EqStr(s1, s2))), "C38/query-present-iff-interned-or-inlinable")

	id2 := t.Intern(s2)
	zz.Assert(zz.Iff(id1 == id2, zz.EqStr(s1, s2)), "C38/same-id-iff-equal-strings")
	zz.Assert(zz.EqStr(t.Value(id2), s2), "C38/value-of-intern-is-the-string")
	zz.Assert(zz.EqStr(t.Value(id1), s1), "C38/earlier-id-still-maps-to-its-string")
	id1b := t.Intern(s1)
	zz.Assert(id1b == id1, "C38/interning-again-gives-the-same-id")
	if !inl1 && !inl2 {
		zz.Reach("C38/both-in-table")
	}
}
