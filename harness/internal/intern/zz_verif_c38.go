//go:build verif

package intern

import (
	zz "github.com/bufbuild/protocompile/internal/zzverif"
)

func zzInAlphabet(b byte) bool {
	dig := zz.And(b >= '0', b <= '9')
	lo := zz.And(b >= 'a', b <= 'z')
	up := zz.And(b >= 'A', b <= 'Z')
	return zz.Or(zz.Or(dig, lo), zz.Or(up, zz.Or(b == '_', b == '.')))
}

// HarnessC38Encode: for every byte string s with |s| <= 6: encodeChar6 succeeds exactly on
// the documented inline domain, decode(encode(s)) == s, and non-empty strings get a
// negative id different from -1.
func HarnessC38Encode() {
	n := zz.IntRange(0, 6)
	s := zz.String(n)
	id, ok := encodeChar6(s)
	want := n <= maxInlined
	if n > 0 {
		want = zz.And(want, s[n-1] != '.')
	}
	for i := 0; i < n; i++ {
		want = zz.And(want, zzInAlphabet(s[i]))
	}
	zz.Assert(zz.Iff(ok, want), "C38/encode-domain")
	if ok {
		zz.Reach("C38/encode-ok")
		var buf inlined
		got := decodeChar6(id, &buf)
		zz.ObsStr(got)
		zz.Obs(uint64(uint32(id)))
		zz.Assert(zz.EqStr(got, s), "C38/decode-encode-identity")
		if n > 0 {
			zz.Assert(zz.And(id < 0, id != -1), "C38/inline-id-negative")
		} else {
			zz.Assert(id == 0, "C38/empty-id-zero")
		}
	}
}

// HarnessC38Injective: two inlinable strings with the same id are equal.
func HarnessC38Injective() {
	n1 := zz.IntRange(0, 5)
	n2 := zz.IntRange(0, 5)
	s1 := zz.String(n1)
	s2 := zz.String(n2)
	id1, ok1 := encodeChar6(s1)
	id2, ok2 := encodeChar6(s2)
	if ok1 && ok2 {
		zz.Reach("C38/both-inline")
		zz.Assert(zz.Implies(id1 == id2, zz.EqStr(s1, s2)), "C38/injective")
		zz.Assert(zz.Implies(zz.EqStr(s1, s2), id1 == id2), "C38/functional")
	}
}

// HarnessC38Decode: for every negative 32-bit id, decoding yields a string whose own
// encoding (when it has one) decodes back to the same string; and the Table's Value for
// a negative id is exactly the char6 decoding.
func HarnessC38Decode() {
	id := ID(zz.I32())
	zz.Assume(id < 0)
	var buf inlined
	s := decodeChar6(id, &buf)
	s = string([]byte(s)) // detach from buf
	zz.ObsStr(s)
	id2, ok := encodeChar6(s)
	zz.Assert(ok, "C38/decoded-string-is-inlinable")
	if ok {
		zz.Reach("C38/decode-reencode")
		var buf2 inlined
		s2 := decodeChar6(id2, &buf2)
		zz.Assert(zz.EqStr(s2, s), "C38/decode-encode-decode")
		if len(s) > 0 {
			// the canonical id differs from id at most in the unused top bits
			zz.Assert((uint32(id2)^uint32(id))&0x3fffffff == 0, "C38/canonical-id-low-bits")
		}
	}
	var t Table
	zz.Assert(zz.EqStr(t.Value(id), s), "C38/table-value-of-inline-id")
}
