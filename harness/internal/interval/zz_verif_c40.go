//go:build verif

package interval

import (
	zz "github.com/bufbuild/protocompile/internal/zzverif"
)

// HarnessC40Intersect: k insertions with arbitrary int endpoints (start <= end), values =
// insertion index. After every insertion: the reported disjointness is exact; at the end:
// entries are sorted by End, pairwise disjoint, Start <= End, and a lookup at an arbitrary
// point returns exactly the indices of the inserted intervals containing it, in order.
func HarnessC40Intersect() {
	k := 3
	if zz.Tier() == 1 {
		k = 4
	}
	n := zz.IntRange(1, k)
	var m Intersect[int8, int]
	kn := false
	starts := make([]int8, n)
	ends := make([]int8, n)
	for i := 0; i < n; i++ {
		s, e := int8(zz.Byte()), int8(zz.Byte())
		zz.Assume(s <= e)
		starts[i], ends[i] = s, e
		inter := false
		for j := 0; j < i; j++ {
			inter = zz.Or(inter, zz.And(starts[j] <= e, s <= ends[j]))
		}
		// Recorded finding (known_findings.json, C40/intersect-bridges-touching-entries): the new
		// interval intersects two consecutive entries that touch (x.End+1 == y.Start).
		{
			havePrev := false
			var px, pe int8
			for ent := range m.Entries() {
				if havePrev {
					touch := zz.And(pe+1 == ent.Start, pe < ent.Start)
					both := zz.And(zz.And(px <= e, s <= pe), zz.And(ent.Start <= e, s <= ent.End))
					kn = zz.Or(kn, zz.And(touch, both))
				}
				havePrev, px, pe = true, ent.Start, ent.End
			}
		}
		// (registered before every insertion: once a bridging insertion has happened the
		// structure is corrupt and later answers may be wrong too)
		zz.Known("C40/intersect-bridges-touching-entries", kn)
		disjoint := m.Insert(s, e, i)
		zz.Assert(zz.Iff(disjoint, !inter), "C40/insert-reports-disjointness")
	}
	zz.Known("C40/intersect-bridges-touching-entries", kn)
	// structural invariants
	first := true
	prevEnd := int8(0)
	cnt := 0
	for ent := range m.Entries() {
		cnt++
		zz.Assert(ent.Start <= ent.End, "C40/entry-start-le-end")
		if !first {
			zz.Assert(prevEnd < ent.Start, "C40/entries-sorted-and-disjoint")
		}
		first = false
		prevEnd = ent.End
		if cnt > 4*n+2 {
			break
		}
	}
	// point lookup
	p := int8(zz.Byte())
	got := m.Get(p)
	last := -1
	for _, v := range got.Value {
		zz.Obs(uint64(v))
		zz.Assert(v > last, "C40/get-values-in-insertion-order")
		last = v
	}
	for i := 0; i < n; i++ {
		contains := zz.And(starts[i] <= p, p <= ends[i])
		in := false
		for _, v := range got.Value {
			if v == i {
				in = true
			}
		}
		zz.Assert(zz.Iff(contains, in), "C40/get-returns-exactly-the-containing-intervals")
	}
	if len(got.Value) > 0 {
		zz.Assert(zz.And(got.Start <= p, p <= got.End), "C40/get-entry-contains-point")
		zz.Reach("C40/get-hit")
	}
}

// HarnessC40Nesting: k insertions with arbitrary endpoints; every inserted interval is in
// exactly one set and within each set any two intervals are disjoint or one is a strict
// subset of the other.
func HarnessC40Nesting() {
	k := 3
	if zz.Tier() == 1 {
		k = 4
	}
	n := zz.IntRange(1, k)
	var nest Nesting[int, int]
	starts := make([]int, n)
	ends := make([]int, n)
	for i := 0; i < n; i++ {
		s, e := zz.Int(), zz.Int()
		zz.Assume(s <= e)
		starts[i], ends[i] = s, e
		nest.Insert(s, e, i)
	}
	// Recorded finding (known_findings.json, C40/nesting-overlap-with-enclosing): A encloses B
	// strictly, C lies entirely to the left of B, C.End is inside A but C starts before A.
	// Insert only inspects the entry with the smallest End >= C.End (that is B) and its
	// predecessor, so the partial overlap of C with A goes unnoticed.
	kn := false
	for a := 0; a < n; a++ {
		for b := 0; b < n; b++ {
			for c := 0; c < n; c++ {
				if a != b && b != c && a != c && a < c && b < c {
					bInA := zz.And(starts[a] < starts[b], ends[b] < ends[a])
					cLeftOfB := ends[c] < starts[b]
					cOverA := zz.And(starts[c] < starts[a], starts[a] <= ends[c])
					kn = zz.Or(kn, zz.And(bInA, zz.And(cLeftOfB, cOverA)))
				}
			}
		}
	}
	zz.Known("C40/nesting-overlap-with-enclosing", kn)
	seen := make([]int, n)
	total := 0
	for set := range nest.Sets() {
		var ents []Entry[int, int]
		for e := range set {
			ents = append(ents, e)
			total++
			if total > 2*n {
				break
			}
		}
		for a := range ents {
			x := ents[a]
			if x.Value >= 0 && x.Value < n {
				seen[x.Value]++
				zz.Assert(zz.And(x.Start == starts[x.Value], x.End == ends[x.Value]), "C40/nesting-entry-is-the-inserted-interval")
			}
			for b := a + 1; b < len(ents); b++ {
				y := ents[b]
				disj := zz.Or(x.End < y.Start, y.End < x.Start)
				xInY := zz.And(zz.And(y.Start <= x.Start, x.End <= y.End), zz.Or(y.Start != x.Start, x.End != y.End))
				yInX := zz.And(zz.And(x.Start <= y.Start, y.End <= x.End), zz.Or(y.Start != x.Start, x.End != y.End))
				zz.Assert(zz.Or(disj, zz.Or(xInY, yInX)), "C40/nesting-set-disjoint-or-strictly-nested")
			}
		}
	}
	for i := 0; i < n; i++ {
		zz.Assert(seen[i] == 1, "C40/nesting-every-interval-in-exactly-one-set")
	}
	zz.Reach("C40/nesting-done")
}
