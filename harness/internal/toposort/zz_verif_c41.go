//go:build verif

package toposort

import (
	"iter"

	zz "github.com/bufbuild/protocompile/internal/zzverif"
)

// HarnessC41Topo: every directed graph on N nodes (symbolic edge relation, self-loops
// allowed) and every choice of one or two roots.
func HarnessC41Topo() {
	N := 3
	if zz.Tier() == 1 {
		N = 4
	}
	var e [4][4]bool
	for i := 0; i < N; i++ {
		for j := 0; j < N; j++ {
			e[i][j] = zz.Bool()
		}
	}
	nroots := zz.IntRange(1, 2)
	roots := make([]int, nroots)
	for i := range roots {
		roots[i] = zz.Choice(N)
	}
	// reference: transitive closure (paths of length >= 1) by Floyd-Warshall on booleans
	var r [4][4]bool
	for i := 0; i < N; i++ {
		for j := 0; j < N; j++ {
			r[i][j] = e[i][j]
		}
	}
	for k := 0; k < N; k++ {
		for i := 0; i < N; i++ {
			for j := 0; j < N; j++ {
				r[i][j] = zz.Or(r[i][j], zz.And(r[i][k], r[k][j]))
			}
		}
	}
	var reach [4]bool
	for v := 0; v < N; v++ {
		for _, rt := range roots {
			reach[v] = zz.Or(reach[v], zz.Or(rt == v, r[rt][v]))
		}
	}
	cyclic := false
	for v := 0; v < N; v++ {
		cyclic = zz.Or(cyclic, zz.And(reach[v], r[v][v]))
	}
	zz.Known("C41/toposort-panics-on-cycle", cyclic)

	var order []int
	panicked := false
	func() {
		defer func() {
			if recover() != nil {
				panicked = true
			}
		}()
		seq := Sort(roots, func(n int) int { return n }, func(n int) iter.Seq[int] {
			return func(yield func(int) bool) {
				for c := 0; c < N; c++ {
					if e[n][c] {
						if !yield(c) {
							return
						}
					}
				}
			}
		})
		for n := range seq {
			order = append(order, n)
			if len(order) > 2*N {
				break
			}
		}
	}()
	zz.Assert(!panicked, "C41/toposort-terminates-without-panic")
	if panicked {
		return
	}
	zz.Reach("C41/toposort-completed")
	var count [4]int
	var pos [4]int
	for i, n := range order {
		zz.Obs(uint64(n))
		count[n]++
		pos[n] = i
	}
	for v := 0; v < N; v++ {
		zz.Assert(count[v] <= 1, "C41/each-node-at-most-once")
		zz.Assert(zz.Iff(count[v] == 1, reach[v]), "C41/exactly-the-reachable-nodes")
	}
	for u := 0; u < N; u++ {
		for c := 0; c < N; c++ {
			if u != c && count[u] == 1 && count[c] == 1 {
				zz.Assert(zz.Implies(zz.And(e[u][c], !cyclic), pos[c] < pos[u]), "C41/children-before-parents")
			}
		}
	}
}
