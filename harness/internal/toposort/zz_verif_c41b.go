//go:build verif

package toposort

import (
	"iter"

	zz "github.com/bufbuild/protocompile/internal/zzverif"
)

// HarnessC41TopoReuse: a Sorter that was abandoned mid-iteration (the consumer broke out
// of the range loop after an arbitrary number of nodes) must behave like a fresh one on the
// next Sort. Acyclic graphs on 3 nodes, arbitrary roots for both calls.
func HarnessC41TopoReuse() {
	const N = 3
	var e [N][N]bool
	for i := 0; i < N; i++ {
		for j := 0; j < N; j++ {
			e[i][j] = zz.Bool()
		}
	}
	var r [N][N]bool
	for i := 0; i < N; i++ {
		for j := 0; j < N; j++ {
			r[i][j] = e[i][j]
		}
	}
	for k := 0; k < N; k++ {
		for i := 0; i < N; i++ {
			for j := 0; j < N; j++ {
				r[i][j] = zz.Or(r[i][j], zz.And(r[i][k], r[k][j]))
			}
		}
	}
	acyclic := true
	for v := 0; v < N; v++ {
		acyclic = zz.And(acyclic, !r[v][v])
	}
	zz.Assume(acyclic)
	dag := func(n int) iter.Seq[int] {
		return func(yield func(int) bool) {
			for c := 0; c < N; c++ {
				if e[n][c] {
					if !yield(c) {
						return
					}
				}
			}
		}
	}
	s := Sorter[int, int]{Key: func(n int) int { return n }}
	root1 := zz.Choice(N)
	stopAfter := zz.IntRange(1, N)
	cnt := 0
	for range s.Sort([]int{root1}, dag) {
		cnt++
		if cnt == stopAfter {
			break
		}
	}
	root2 := zz.Choice(N)
	var count [N]int
	var pos [N]int
	i := 0
	for n := range s.Sort([]int{root2}, dag) {
		count[n]++
		pos[n] = i
		i++
		if i > 2*N {
			break
		}
	}
	zz.Reach("C41/reuse-second-sort-completed")
	for v := 0; v < N; v++ {
		reach := zz.Or(v == root2, r[root2][v])
		zz.Assert(count[v] <= 1, "C41/reuse-each-node-at-most-once")
		zz.Assert(zz.Iff(count[v] == 1, reach), "C41/reuse-exactly-the-reachable-nodes")
	}
	for u := 0; u < N; u++ {
		for c := 0; c < N; c++ {
			if u != c && count[u] == 1 && count[c] == 1 {
				zz.Assert(zz.Implies(e[u][c], pos[c] < pos[u]), "C41/reuse-children-before-parents")
			}
		}
	}
}
