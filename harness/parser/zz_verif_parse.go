//go:build verif

package parser

import (
	"bytes"

	"github.com/bufbuild/protocompile/ast"
	zz "github.com/bufbuild/protocompile/internal/zzverif"
	"github.com/bufbuild/protocompile/reporter"
)

var zzParsePrefixes = []string{
	"",
	"message M { int32 x = 1 [",
	"message M { int32 x = 1 [a",
	"message M { int32 x = 1 [a]; ",
	"message M { option a",
	"message M { reserved 1 to ",
	"message M { extensions 1",
	"message M { extensions 1 [a = 1] ",
	"import \"a.proto\" ;",
	"option (a).b = { [c]: 1",
	"option (a) = { b: 1",
	"option (a) = { [1]: 2",
	"option (a) = { [1]: 2; b: 3 }",
	"enum E { A = 0",
	"service S { rpc M(",
	"import option \"a\"",
	"syntax = \"proto3\";",
}

func zzParseInput() []byte {
	p := zzParsePrefixes[zz.Choice(len(zzParsePrefixes))]
	k := 1
	if zz.Tier() == 1 {
		k = 2
	}
	return append([]byte(p), zz.Bytes(zz.IntRange(0, k))...)
}

func zzParse(data []byte, tolerant bool) (*ast.FileNode, error, int) {
	n := 0
	var rep reporter.Reporter
	if tolerant {
		rep = reporter.NewReporter(func(e reporter.ErrorWithPos) error { n++; return nil }, nil)
	} else {
		rep = reporter.NewReporter(func(e reporter.ErrorWithPos) error { n++; return e }, nil)
	}
	h := reporter.NewHandler(rep)
	file, err := Parse("f.proto", bytes.NewReader(data), h)
	return file, err, n
}

// HarnessC12Parse: the whole stable parser (lexer, LR parser with error recovery, AST
// construction) and ResultFromAST with validation, on concrete declaration prefixes followed
// by 0..1 (quick) / 0..2 (thorough) arbitrary bytes, with a reporter that tolerates every
// error or aborts at the first one: a non-nil AST is returned without panicking, an error is
// returned exactly when an error was reported, and converting the AST to a descriptor proto
// never panics.
func HarnessC12Parse() {
	data := zzParseInput()
	tolerant := zz.Bool()
	file, err, nerr := zzParse(data, tolerant)
	zz.Assert(file != nil, "C12/parse-returns-non-nil-ast")
	zz.Assert((err != nil) == (nerr > 0), "C12/parse-error-iff-error-reported")
	if file == nil {
		return
	}
	// Recorded finding C12/option-without-value: see known_findings.json
	nerr2 := 0
	h := reporter.NewHandler(reporter.NewReporter(func(e reporter.ErrorWithPos) error { nerr2++; return nil }, nil))
	res, err2 := ResultFromAST(file, true, h)
	zz.Assert(res != nil, "C12/result-from-ast-returns-a-result")
	zz.Assert((err2 != nil) == (nerr2 > 0), "C12/result-error-iff-error-reported")
	zz.Reach("C12/parsed-and-converted")
}

// HarnessC11Parse: when the parser accepts the input (no error reported), walking the AST
// and printing each terminal's leading comments, leading whitespace, raw text and trailing
// comments reproduces the source exactly (minus a leading byte-order mark), and every
// terminal's span starts no later than it ends.
func HarnessC11Parse() {
	data := zzParseInput()
	file, err, nerr := zzParse(data, true)
	if err != nil || nerr > 0 || file == nil {
		return
	}
	zz.Reach("C11/accepted-by-the-parser")
	var out []byte
	emit := func(cs ast.Comments) {
		for i := 0; i < cs.Len(); i++ {
			c := cs.Index(i)
			out = append(out, c.LeadingWhitespace()...)
			out = append(out, c.RawText()...)
		}
	}
	_ = ast.Walk(file, &ast.SimpleVisitor{
		DoVisitTerminalNode: func(tok ast.TerminalNode) error {
			info := file.NodeInfo(tok)
			emit(info.LeadingComments())
			out = append(out, info.LeadingWhitespace()...)
			out = append(out, info.RawText()...)
			emit(info.TrailingComments())
			s, e := info.Start(), info.End()
			zz.Assert(s.Line < e.Line || (s.Line == e.Line && s.Col <= e.Col), "C11/terminal-start-le-end")
			return nil
		},
	})
	want := data
	if len(want) >= 3 && want[0] == 0xEF && want[1] == 0xBB && want[2] == 0xBF {
		want = want[3:]
	}
	zz.Assert(len(out) == len(want), "C11/ast-walk-reproduces-source-length")
	if len(out) == len(want) {
		zz.Assert(zz.EqBytes(out, want), "C11/ast-walk-reproduces-source")
	}
}
