//go:build verif

package parser

import (
	"google.golang.org/protobuf/proto"
	"google.golang.org/protobuf/reflect/protoreflect"
	"google.golang.org/protobuf/types/descriptorpb"

	"github.com/bufbuild/protocompile/ast"
	zz "github.com/bufbuild/protocompile/internal/zzverif"
	"github.com/bufbuild/protocompile/reporter"
)

func zzResult() (*result, *reporter.Handler, *int) {
	n := new(int)
	rep := reporter.NewReporter(func(e reporter.ErrorWithPos) error { *n++; return nil }, nil)
	return &result{file: ast.NewEmptyFileNode("f.proto"), ifNoAST: ast.NewNoSourceNode("f.proto")}, reporter.NewHandler(rep), n
}

func zzI32() int32 { return int32(zz.U32()) }

// HarnessC01Message: tag/range validation of a message with up to 2 reserved ranges, 2
// extension ranges (arbitrary int32 bounds, start < end, end exclusive as stored), 2 fields
// with arbitrary numbers and names from {a,b}, and an optional reserved name: an error is
// reported exactly when the transcribed protoc rules reject (DescriptorBuilder::BuildMessage:
// reserved ranges pairwise disjoint, extension ranges pairwise disjoint, no extension range
// intersecting a reserved range, no field number inside either, field numbers unique, no
// field using a reserved name; no extension ranges in proto3).
func HarnessC01Message() {
	syntax := protoreflect.Proto2
	if zz.Bool() {
		syntax = protoreflect.Proto3
	}
	md := &descriptorpb.DescriptorProto{Name: proto.String("M")}
	mr, me, mf := 2, 2, 2
	if zz.Tier() == 0 {
		// quick tier: at most one of the three lists has two entries
		switch zz.Choice(3) {
		case 0:
			me, mf = 1, 1
		case 1:
			mr, mf = 1, 1
		default:
			mr, me = 1, 1
		}
	}
	if zz.Tier() == 1 {
		// thorough tier: at most two of the three lists have two entries
		switch zz.Choice(3) {
		case 0:
			mf = 1
		case 1:
			me = 1
		default:
			mr = 1
		}
	}
	nr, ne, nf := zz.IntRange(0, mr), zz.IntRange(0, me), zz.IntRange(0, mf)
	type rng struct{ s, e int32 }
	var rs, es []rng
	for i := 0; i < nr; i++ {
		s, e := zzI32(), zzI32()
		zz.Assume(s < e)
		rs = append(rs, rng{s, e})
		md.ReservedRange = append(md.ReservedRange, &descriptorpb.DescriptorProto_ReservedRange{Start: proto.Int32(s), End: proto.Int32(e)})
	}
	for i := 0; i < ne; i++ {
		s, e := zzI32(), zzI32()
		zz.Assume(s < e)
		es = append(es, rng{s, e})
		md.ExtensionRange = append(md.ExtensionRange, &descriptorpb.DescriptorProto_ExtensionRange{Start: proto.Int32(s), End: proto.Int32(e)})
	}
	names := []string{"a", "b"}
	var fnum []int32
	var fname []string
	for i := 0; i < nf; i++ {
		num := zzI32()
		nm := names[zz.Choice(2)]
		fnum = append(fnum, num)
		fname = append(fname, nm)
		md.Field = append(md.Field, &descriptorpb.FieldDescriptorProto{Name: proto.String(nm), Number: proto.Int32(num)})
	}
	rname := ""
	if zz.Bool() {
		rname = names[zz.Choice(2)]
		md.ReservedName = []string{rname}
	}
	res, h, nerr := zzResult()
	err := validateMessage(res, syntax, "M", md, h)
	zz.Assert(err == nil, "C01/accepting-reporter-never-aborts")
	rejected := *nerr > 0
	zz.Obs(uint64(*nerr))

	// reference
	inter := func(a, b rng) bool { return zz.And(a.s < b.e, b.s < a.e) }
	bad := syntax == protoreflect.Proto3 && ne > 0
	for i := range rs {
		for j := i + 1; j < len(rs); j++ {
			bad = zz.Or(bad, inter(rs[i], rs[j]))
		}
		for j := range es {
			bad = zz.Or(bad, inter(rs[i], es[j]))
		}
	}
	for i := range es {
		for j := i + 1; j < len(es); j++ {
			bad = zz.Or(bad, inter(es[i], es[j]))
		}
	}
	for i := range fnum {
		for j := i + 1; j < len(fnum); j++ {
			bad = zz.Or(bad, fnum[i] == fnum[j])
		}
		for _, r := range rs {
			bad = zz.Or(bad, zz.And(r.s <= fnum[i], fnum[i] < r.e))
		}
		for _, r := range es {
			bad = zz.Or(bad, zz.And(r.s <= fnum[i], fnum[i] < r.e))
		}
		if rname != "" && fname[i] == rname {
			bad = true
		}
	}
	zz.Assert(zz.Iff(rejected, bad), "C01/message-tag-range-validation")
	zz.Assert(rejected == (h.Error() != nil), "C01/handler-error-iff-reported")
	if nf > 0 && nr > 0 {
		zz.Reach("C01/message-with-fields-and-ranges")
	}
}

// HarnessC01Enum: alias and reserved-range validation of an enum with up to 3 values
// (arbitrary int32 numbers), allow_alias in {unset, true, false, non-bool}, up to 2 reserved
// ranges (inclusive ends, start <= end) and an optional reserved name.
func HarnessC01Enum() {
	syntax := protoreflect.Proto2
	if zz.Bool() {
		syntax = protoreflect.Proto3
	}
	ed := &descriptorpb.EnumDescriptorProto{Name: proto.String("E")}
	nv := zz.IntRange(1, 3)
	vnames := []string{"A", "B", "C"}
	var nums []int32
	for i := 0; i < nv; i++ {
		n := zzI32()
		nums = append(nums, n)
		ed.Value = append(ed.Value, &descriptorpb.EnumValueDescriptorProto{Name: proto.String(vnames[i]), Number: proto.Int32(n)})
	}
	alias := zz.Choice(4) // 0 unset, 1 true, 2 false, 3 not a bool
	if alias > 0 {
		opt := &descriptorpb.UninterpretedOption{Name: []*descriptorpb.UninterpretedOption_NamePart{{NamePart: proto.String("allow_alias"), IsExtension: proto.Bool(false)}}}
		switch alias {
		case 1:
			opt.IdentifierValue = proto.String("true")
		case 2:
			opt.IdentifierValue = proto.String("false")
		case 3:
			opt.PositiveIntValue = proto.Uint64(1)
		}
		ed.Options = &descriptorpb.EnumOptions{UninterpretedOption: []*descriptorpb.UninterpretedOption{opt}}
	}
	nr := zz.IntRange(0, 2)
	type rng struct{ s, e int32 }
	var rs []rng
	for i := 0; i < nr; i++ {
		s, e := zzI32(), zzI32()
		zz.Assume(s <= e)
		rs = append(rs, rng{s, e})
		ed.ReservedRange = append(ed.ReservedRange, &descriptorpb.EnumDescriptorProto_EnumReservedRange{Start: proto.Int32(s), End: proto.Int32(e)})
	}
	rname := ""
	if zz.Bool() {
		rname = vnames[zz.Choice(3)]
		ed.ReservedName = []string{rname}
	}
	res, h, nerr := zzResult()
	err := validateEnum(res, syntax, "E", ed, h)
	zz.Assert(err == nil, "C01/accepting-reporter-never-aborts")
	rejected := *nerr > 0

	dup := false
	for i := range nums {
		for j := i + 1; j < len(nums); j++ {
			dup = zz.Or(dup, nums[i] == nums[j])
		}
	}
	bad := alias == 3
	if syntax == protoreflect.Proto3 {
		bad = zz.Or(bad, nums[0] != 0)
	}
	if alias == 1 {
		bad = zz.Or(bad, !dup)
	} else {
		bad = zz.Or(bad, dup)
	}
	for i := range rs {
		for j := i + 1; j < len(rs); j++ {
			bad = zz.Or(bad, zz.And(rs[i].s <= rs[j].e, rs[j].s <= rs[i].e))
		}
		for k := range nums {
			bad = zz.Or(bad, zz.And(rs[i].s <= nums[k], nums[k] <= rs[i].e))
		}
	}
	for i := 0; i < nv; i++ {
		if rname != "" && vnames[i] == rname {
			bad = true
		}
	}
	zz.Assert(zz.Iff(rejected, bad), "C01/enum-alias-range-validation")
	if nv > 1 && nr > 0 {
		zz.Reach("C01/enum-with-values-and-ranges")
	}
}
