//go:build verif

package fastscan

import (
	"bytes"

	"github.com/bufbuild/protocompile/ast"
	zz "github.com/bufbuild/protocompile/internal/zzverif"
	"github.com/bufbuild/protocompile/parser"
	"github.com/bufbuild/protocompile/reporter"
)

var zzScanTemplates = [][2]string{
	{"", "package p;\nimport \"x.proto\";\n"},
	{"", "import \"x.proto\";\npackage p;\n"},
	{"/*", "/\npackage p;\nimport public \"x.proto\";\n"},
	{"/*", "\npackage p;\n"},
	{"syntax = \"proto3\";\n", "package p.q;\nimport weak \"y.proto\";\n"},
	{"syntax = \"proto3\";\npackage p", ";\nimport \"y.proto\";\n"},
	{"syntax = \"proto3\";\nimport \"a", "\";\nmessage M {}\nimport \"b\";\n"},
}

// HarnessC25Scan: fastscan.Scan against the real parser (lexer, LR parser, AST) on source
// templates with 0..k arbitrary bytes in the middle (before a leading package/import
// statement without a syntax line, inside/at the end of a block comment, inside a package
// name and inside an import path): whenever the full parser accepts the file without
// errors, Scan succeeds and reports the same package name and the same imports (path,
// public, weak) in the same order.
func HarnessC25Scan() {
	t := zzScanTemplates[zz.Choice(len(zzScanTemplates))]
	k := 2
	if zz.Tier() == 1 {
		k = 3
	}
	mid := zz.Bytes(zz.IntRange(0, k))
	var src []byte
	src = append(src, t[0]...)
	src = append(src, mid...)
	src = append(src, t[1]...)
	errs := 0
	h := reporter.NewHandler(reporter.NewReporter(func(reporter.ErrorWithPos) error { errs++; return nil }, nil))
	file, err := parser.Parse("f.proto", bytes.NewReader(src), h)
	if err != nil || errs > 0 || file == nil {
		return
	}
	zz.Reach("C25/parser-accepts-template")
	wantPkg := ""
	type imp struct {
		path         string
		public, weak bool
	}
	var want []imp
	for _, d := range file.Decls {
		switch d := d.(type) {
		case *ast.PackageNode:
			wantPkg = string(d.Name.AsIdentifier())
		case *ast.ImportNode:
			want = append(want, imp{d.Name.AsString(), d.Public != nil, d.Weak != nil})
		}
	}
	res, err := Scan("f.proto", bytes.NewReader(src))
	zz.Assert(err == nil, "C25/scan-accepts-what-the-parser-accepts")
	if err != nil {
		return
	}
	zz.Assert(zz.EqStr(res.PackageName, wantPkg), "C25/scan-package-name")
	zz.Assert(len(res.Imports) == len(want), "C25/scan-import-count")
	if len(res.Imports) == len(want) {
		for i := range want {
			zz.Assert(zz.EqStr(res.Imports[i].Path, want[i].path), "C25/scan-import-path")
			zz.Assert(res.Imports[i].IsPublic == want[i].public && res.Imports[i].IsWeak == want[i].weak, "C25/scan-import-modifiers")
		}
	}
}
