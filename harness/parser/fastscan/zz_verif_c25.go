//go:build verif

package fastscan

import (
	"bytes"

	zz "github.com/bufbuild/protocompile/internal/zzverif"
	"github.com/bufbuild/protocompile/parser"
)

// HarnessC25Lex: on every byte string of up to N bytes that the full parser's lexer accepts,
// the fast scanner's lexer produces the same token stream: same number of tokens, same
// class (identifier, string, number, punctuation rune) position by position, same
// identifier text and same decoded string bytes. Scan's result depends only on these.
func HarnessC25Lex() {
	maxN := 3
	if zz.Tier() == 1 {
		maxN = 4
	}
	n := zz.IntRange(0, maxN)
	data := zz.Bytes(n)
	ptoks, hadErr := parser.ZZLexAll(data)
	if hadErr {
		return
	}
	zz.Reach("C25/parser-lexer-accepts")
	lx := newLexer(bytes.NewReader(data))
	i := 0
	for ; i < n+3; i++ {
		t, text, err := lx.Lex()
		zz.Assert(err == nil, "C25/fast-lexer-no-error")
		if t == eofToken {
			break
		}
		if i >= len(ptoks) {
			zz.Assert(false, "C25/fast-lexer-extra-token")
			return
		}
		p := ptoks[i]
		switch t {
		case identifierToken:
			zz.Assert(p.Kind == 1, "C25/token-class")
			if p.Kind == 1 {
				zz.Assert(zz.EqStr(text, p.Text), "C25/identifier-text")
			}
		case stringToken:
			zz.Assert(p.Kind == 2, "C25/token-class")
			if p.Kind == 2 {
				zz.Assert(zz.EqStr(text, p.Text), "C25/string-value")
			}
		case numberToken:
			zz.Assert(p.Kind == 3, "C25/token-class")
		default:
			zz.Assert(p.Kind == 4, "C25/token-class")
			if p.Kind == 4 {
				zz.Assert(rune(t) == p.R, "C25/punctuation")
			}
		}
	}
	zz.Assert(i == len(ptoks), "C25/token-count")
}
