//go:build verif

package parser

import (
	"bytes"

	"github.com/bufbuild/protocompile/ast"
	zz "github.com/bufbuild/protocompile/internal/zzverif"
	"github.com/bufbuild/protocompile/reporter"
)

type zzLexRun struct {
	lx      *protoLex
	h       *reporter.Handler
	errs    []reporter.ErrorWithPos
	sawErr  bool
	eof     bool
	content []byte // what the FileInfo holds (input minus a leading BOM)
}

// zzLexAll drives the real lexer the way the generated parser does: Lex is called until it
// returns 0; an _ERROR token does not stop the loop (yacc error recovery keeps reading).
func zzLexAll(data []byte) *zzLexRun {
	r := &zzLexRun{}
	rep := reporter.NewReporter(func(e reporter.ErrorWithPos) error {
		r.errs = append(r.errs, e)
		return nil
	}, nil)
	r.h = reporter.NewHandler(rep)
	lx, err := newLexer(bytes.NewReader(data), "f.proto", r.h)
	zz.Assert(err == nil, "lexer-construction")
	r.lx = lx
	r.content = data
	if len(data) >= 3 && data[0] == 0xEF && data[1] == 0xBB && data[2] == 0xBF {
		r.content = data[3:]
	}
	var lval protoSymType
	for i := 0; i < len(data)+3; i++ {
		t := lx.Lex(&lval)
		if t == _ERROR {
			r.sawErr = true
		}
		if t == 0 {
			r.eof = true
			break
		}
	}
	return r
}

func zzLexBound() int {
	return 3
}

var zzPrefixes = []string{
	"\xef\xbb\xbf",   // byte-order mark
	"\xef\xbb\xbfa\t", // BOM, token, tab
	"a /*c*/ ",        // token, trailing block comment
	"a //c\n",         // token, trailing line comment
	"/*c*/\n",         // leading comment
	"\"\\",            // string with an escape being started
	"'\\x",            // hex escape being started
	"\"\\u00",         // unicode escape being started
	"1e",              // exponent being started
	"0x",              // hex literal being started
	".",               // dot (number or punctuation)
	"a\n\"",           // second line, string start
}

// zzTemplate returns a concrete prefix followed by a few arbitrary bytes.
func zzTemplate() []byte {
	pi := zz.Choice(len(zzPrefixes))
	p := zzPrefixes[pi]
	k := 2
	if zz.Tier() == 1 && (pi == 0 || pi == 5 || pi == 8 || pi == 10) {
		k = 3 // (three arbitrary bytes after the BOM, an escape start, an exponent start and a dot)
	}
	n := zz.IntRange(0, k)
	return append([]byte(p), zz.Bytes(n)...)
}

func zzIsSpace(b byte) bool {
	return zz.Or(zz.Or(b == ' ', b == '\n'), zz.Or(zz.Or(b == '\r', b == '\t'), zz.Or(b == '\f', b == '\v')))
}

// HarnessC12Lex: the lexer is total on every byte string of up to N bytes: no panic (any
// panic, including the FileInfo invariant panics, escapes the harness and is reported),
// it reaches EOF within len+2 calls, an error token is returned exactly when an error was
// reported, and every reported position lies inside the file.
func HarnessC12Lex() {
	n := zz.IntRange(0, zzLexBound())
	zzC12Body(zz.Bytes(n))
}

// HarnessC12LexTmpl: the same assertions on longer inputs made of a concrete prefix (chosen
// from zzPrefixes: BOM, comments before tokens, string/number/escape starts) followed by
// 0..2 arbitrary bytes.
func HarnessC12LexTmpl() { zzC12Body(zzTemplate()) }

func zzC12Body(data []byte) {
	r := zzLexAll(data)
	zz.Assert(r.eof, "C12/lexer-reaches-eof")
	zz.Assert(r.sawErr == (len(r.errs) > 0), "C12/error-token-iff-error-reported")
	zz.Assert((r.h.Error() != nil) == (len(r.errs) > 0), "C12/handler-error-iff-error-reported")
	nl := 1
	for i := range r.content {
		nl = zz.IteInt(r.content[i] == '\n', nl+1, nl)
	}
	for _, e := range r.errs {
		p := e.GetPosition()
		zz.Assert(zz.And(p.Offset >= 0, p.Offset <= len(r.content)), "C12/error-offset-inside-file")
		zz.Assert(zz.And(p.Line >= 1, p.Line <= nl), "C12/error-line-exists")
		zz.Assert(zz.And(p.Col >= 1, p.Col <= 8*len(r.content)+1), "C12/error-column-exists")
		zz.Reach("C12/some-error-reported")
	}
}

// HarnessC11Lex: when no error is reported, the items recorded by the lexer (tokens and
// comments) tile the input: each item's leading whitespace starts where the previous item
// ended, consists of whitespace only, and whitespace + raw text of all items in order
// reproduces the input (minus a leading byte-order mark); every comment is attributed.
func HarnessC11Lex() {
	n := zz.IntRange(0, zzLexBound())
	zzC11Body(zz.Bytes(n))
}

// HarnessC11LexTmpl: tiling on template inputs (see HarnessC12LexTmpl).
func HarnessC11LexTmpl() { zzC11Body(zzTemplate()) }

func zzC11Body(data []byte) {
	n := len(data)
	r := zzLexAll(data)
	if r.sawErr || len(r.errs) > 0 || !r.eof {
		return
	}
	zz.Reach("C11/clean-lex")
	info := r.lx.info
	pos := 0
	items := info.Items()
	it, ok := items.First()
	zz.Assert(ok, "C11/eof-item-exists")
	for cnt := 0; ok && cnt <= n+2; cnt++ {
		ii := info.ItemInfo(it)
		ws := ii.LeadingWhitespace()
		raw := ii.RawText()
		zz.Assert(ii.Start().Offset == pos+len(ws), "C11/items-contiguous")
		if pos+len(ws)+len(raw) > len(r.content) {
			zz.Assert(false, "C11/items-inside-input")
			return
		}
		for j := 0; j < len(ws); j++ {
			zz.Assert(zzIsSpace(ws[j]), "C11/gap-is-whitespace")
		}
		zz.Assert(zz.EqStr(ws, string(r.content[pos:pos+len(ws)])), "C11/whitespace-reproduces-input")
		zz.Assert(zz.EqStr(raw, string(r.content[pos+len(ws):pos+len(ws)+len(raw)])), "C11/raw-text-reproduces-input")
		pos += len(ws) + len(raw)
		it, ok = items.Next(it)
	}
	zz.Assert(pos == len(r.content), "C11/items-cover-the-whole-input")
	// comments: every comment item is attributed to a token (leading or trailing)
	ncomments := 0
	for tok, ok := info.Tokens().First(); ok; tok, ok = info.Tokens().Next(tok) {
		ni := info.TokenInfo(tok)
		ncomments += ni.LeadingComments().Len() + ni.TrailingComments().Len()
	}
	nitems, ntokens := 0, 0
	for it, ok := items.First(); ok; it, ok = items.Next(it) {
		nitems++
	}
	for tok, ok := info.Tokens().First(); ok; tok, ok = info.Tokens().Next(tok) {
		ntokens++
	}
	zz.Assert(nitems == ntokens+ncomments, "C11/every-comment-attributed-once")
}

// HarnessC13Lex: with the line table built by the real lexer, the start of every item is
// reported at line = 1 + number of '\n' before it and at the protoc column, and every
// item's span starts no later than it ends.
func HarnessC13Lex() {
	n := zz.IntRange(0, zzLexBound())
	zzC13Body(zz.Bytes(n))
}

// HarnessC13LexTmpl: line/column of every item on template inputs (see HarnessC12LexTmpl).
func HarnessC13LexTmpl() { zzC13Body(zzTemplate()) }

func zzC13Body(data []byte) {
	n := len(data)
	r := zzLexAll(data)
	info := r.lx.info
	items := info.Items()
	cnt := 0
	for it, ok := items.First(); ok && cnt <= n+2; it, ok = items.Next(it) {
		cnt++
		ii := info.ItemInfo(it)
		if ii == nil {
			// a comment that was lexed but never attributed to a token: only possible when
			// lexing stopped with an error before the next token
			zz.Assert(r.sawErr || len(r.errs) > 0, "C13/unattributed-comment-only-after-an-error")
			continue
		}
		s, e := ii.Start(), ii.End()
		zz.Assert(zz.Or(s.Line < e.Line, zz.And(s.Line == e.Line, s.Col <= e.Col)), "C13/item-start-le-end")
		zz.Assert(s.Offset <= e.Offset, "C13/item-offsets-ordered")
		if s.Offset > len(r.content) {
			zz.Assert(false, "C13/item-offset-inside-file")
			return
		}
		line, col := 1, 0
		for i := 0; i < s.Offset; i++ {
			b := r.content[i]
			isNL := b == '\n'
			line = zz.IteInt(isNL, line+1, line)
			col = zz.IteInt(isNL, 0, zz.IteInt(b == '\t', col+8-col%8, zz.IteInt(b&0xC0 != 0x80, col+1, col)))
		}
		zz.Assert(s.Line == line, "C13/lexer-line-table")
		zz.Assert(s.Col == col+1, "C13/lexer-column")
	}
	if cnt > 1 {
		zz.Reach("C13/lexed-some-item")
	}
	_ = ast.Token(0)
}
