//go:build verif

package parser

import (
	"bytes"
	"unicode/utf8"

	zz "github.com/bufbuild/protocompile/internal/zzverif"
	"github.com/bufbuild/protocompile/reporter"
)

func zzIsHexB(b byte) bool {
	return (b >= '0' && b <= '9') || (b >= 'a' && b <= 'f') || (b >= 'A' && b <= 'F')
}

func zzHexVal(b byte) int {
	switch {
	case b >= '0' && b <= '9':
		return int(b - '0')
	case b >= 'a' && b <= 'f':
		return int(b-'a') + 10
	}
	return int(b-'A') + 10
}

// zzRefDecode transcribes protoc's Tokenizer::ConsumeString (accept/reject) and
// Tokenizer::ParseStringAppend (bytes) for the bytes following the opening quote q.
// pinned marks input classes where protoc's exact behaviour is not established offline;
// there the reference follows the repository's documented behaviour (regression oracle):
// octal escapes above \377 and \U above 10FFFF are rejected, lone surrogates and invalid
// UTF-8 are kept as the implementation keeps them (see known findings), short \u/\U reject.
func zzRefDecode(b []byte, q byte) (out []byte, ok bool, rawInvalid bool) {
	bad := false
	for i := 0; ; {
		if i >= len(b) {
			return nil, false, rawInvalid // EOF inside literal
		}
		c := b[i]
		switch {
		case c == 0:
			bad = true
			i++
		case c == '\n':
			return nil, false, rawInvalid
		case c == q:
			return out, !bad, rawInvalid
		case c == '\\':
			i++
			if i >= len(b) {
				return nil, false, rawInvalid
			}
			e := b[i]
			i++
			switch {
			case e == 'a':
				out = append(out, '\a')
			case e == 'b':
				out = append(out, '\b')
			case e == 'f':
				out = append(out, '\f')
			case e == 'n':
				out = append(out, '\n')
			case e == 'r':
				out = append(out, '\r')
			case e == 't':
				out = append(out, '\t')
			case e == 'v':
				out = append(out, '\v')
			case e == '\\' || e == '?' || e == '\'' || e == '"':
				out = append(out, e)
			case e >= '0' && e <= '7':
				v, n := int(e-'0'), 1
				for n < 3 && i < len(b) && b[i] >= '0' && b[i] <= '7' {
					v = v*8 + int(b[i]-'0')
					i++
					n++
				}
				if v > 255 {
					bad = true
				} else {
					out = append(out, byte(v))
				}
			case e == 'x' || e == 'X':
				if i < len(b) && zzIsHexB(b[i]) {
					v := zzHexVal(b[i])
					i++
					if i < len(b) && zzIsHexB(b[i]) {
						v = v*16 + zzHexVal(b[i])
						i++
					}
					out = append(out, byte(v))
				} else {
					bad = true
					// the implementation consumes one more character unless it is the quote or a backslash
					if i < len(b) && b[i] != q && b[i] != '\\' {
						if b[i] >= 0x80 {
							rawInvalid = true // multi-byte consumption: outside the compared class
						}
						i++
					}
				}
			case e == 'u' || e == 'U':
				n := 4
				if e == 'U' {
					n = 8
				}
				v, k := 0, 0
				allHex := true
				for k < n && i < len(b) && b[i] != q && b[i] != '\\' {
					if b[i] >= 0x80 {
						rawInvalid = true
					}
					if zzIsHexB(b[i]) {
						v = v*16 + zzHexVal(b[i])
					} else {
						allHex = false
					}
					i++
					k++
				}
				switch {
				case k < n || !allHex:
					bad = true
				case v > 0x10ffff:
					bad = true
				case v >= 0xd800 && v <= 0xdfff:
					out = utf8.AppendRune(out, utf8.RuneError)
				default:
					out = utf8.AppendRune(out, rune(v))
				}
			default:
				bad = true
				if e >= 0x80 {
					rawInvalid = true
				}
			}
		default:
			if c >= 0x80 {
				rawInvalid = true
			}
			out = append(out, c)
			i++
		}
	}
}

func zzLexOne(data []byte) (tok int, lval protoSymType, errs int) {
	n := 0
	rep := reporter.NewReporter(func(e reporter.ErrorWithPos) error { n++; return nil }, nil)
	h := reporter.NewHandler(rep)
	lx, _ := newLexer(bytes.NewReader(data), "f.proto", h)
	tok = lx.Lex(&lval)
	return tok, lval, n
}

// HarnessC14Str: every literal body of up to N arbitrary bytes (ASCII and above), both
// quote characters: accepted exactly when the reference accepts, with the same bytes.
// Bodies containing bytes >= 0x80 are compared only when the reference's byte-wise view
// and the implementation's rune-wise view consume the same input (rawInvalid == false).
func HarnessC14Str() {
	maxN := 3
	if zz.Tier() == 1 {
		maxN = 4
	}
	n := zz.IntRange(0, maxN)
	q := byte('"')
	if zz.Bool() {
		q = '\''
	}
	body := zz.Bytes(n)
	data := append(append([]byte{q}, body...), q)
	tok, lval, _ := zzLexOne(data)
	want, ok, rawHigh := zzRefDecode(data[1:], q)
	if rawHigh {
		return // handled by HarnessC14High
	}
	zz.Reach("C14/ascii-body")
	zz.Assert((tok == _STRING_LIT) == ok, "C14/string-accept-reject")
	if tok == _STRING_LIT && ok {
		got := lval.s.AsString()
		zz.ObsStr(got)
		zz.Assert(zz.EqBytes([]byte(got), want), "C14/string-decoded-bytes")
	}
}

// HarnessC14High: raw bytes >= 0x80 inside a literal are copied through unchanged (protoc
// copies raw bytes; the lexer's own comment says invalid UTF-8 is allowed).
func HarnessC14High() {
	n := zz.IntRange(1, 2)
	body := zz.Bytes(n)
	for i := range body {
		zz.Assume(zz.And(body[i] != '"', zz.And(body[i] != '\\', zz.And(body[i] != '\n', body[i] != 0))))
	}
	hasHigh := false
	for i := range body {
		hasHigh = zz.Or(hasHigh, body[i] >= 0x80)
	}
	zz.Assume(hasHigh)
	// Recorded finding C14/invalid-utf8-replaced: a raw byte sequence that is not valid UTF-8
	// is decoded through runes and comes out as U+FFFD (EF BF BD) instead of the raw bytes.
	zz.Known("C14/invalid-utf8-replaced", !utf8.Valid(body))
	data := append(append([]byte{'"'}, body...), '"')
	tok, lval, _ := zzLexOne(data)
	zz.Assert(tok == _STRING_LIT, "C14/raw-high-bytes-accepted")
	if tok == _STRING_LIT {
		zz.Assert(zz.EqBytes([]byte(lval.s.AsString()), body), "C14/raw-bytes-copied-unchanged")
	}
	zz.Reach("C14/high-bytes")
}

// HarnessC14Unicode: \uHHHH and \U00HHHHHH with every H an arbitrary hex digit.
func HarnessC14Unicode() {
	long := zz.Bool()
	nd := 4
	if long {
		nd = 6
	}
	digs := zz.Bytes(nd)
	v := 0
	for i := range digs {
		d := digs[i]
		isDig := zz.And(d >= '0', d <= '9')
		isLo := zz.And(d >= 'a', d <= 'f')
		isUp := zz.And(d >= 'A', d <= 'F')
		zz.Assume(zz.Or(isDig, zz.Or(isLo, isUp)))
		dv := zz.IteInt(isDig, int(d-'0'), zz.IteInt(isLo, int(d-'a')+10, int(d-'A')+10))
		v = v*16 + dv
	}
	var data []byte
	if long {
		data = append([]byte(`"\U00`), digs...)
	} else {
		data = append([]byte(`"\u`), digs...)
	}
	data = append(data, '"')
	tok, lval, _ := zzLexOne(data)
	zz.Assert(zz.Iff(tok == _STRING_LIT, v <= 0x10ffff), "C14/unicode-escape-accept-reject")
	if tok == _STRING_LIT {
		got := []byte(lval.s.AsString())
		// reference UTF-8 encoding of v (surrogates pinned to U+FFFD)
		sur := zz.And(v >= 0xd800, v <= 0xdfff)
		r := zz.IteInt(sur, 0xfffd, v)
		n := zz.IteInt(r < 0x80, 1, zz.IteInt(r < 0x800, 2, zz.IteInt(r < 0x10000, 3, 4)))
		zz.Assert(len(got) == n, "C14/unicode-escape-length")
		if len(got) == 1 {
			zz.Assert(int(got[0]) == r, "C14/unicode-escape-bytes")
		}
		if len(got) == 2 {
			zz.Assert(zz.And(int(got[0]) == 0xC0|r>>6, int(got[1]) == 0x80|r&0x3f), "C14/unicode-escape-bytes")
		}
		if len(got) == 3 {
			zz.Assert(zz.And(int(got[0]) == 0xE0|r>>12, zz.And(int(got[1]) == 0x80|(r>>6)&0x3f, int(got[2]) == 0x80|r&0x3f)), "C14/unicode-escape-bytes")
		}
		if len(got) == 4 {
			zz.Assert(zz.And(zz.And(int(got[0]) == 0xF0|r>>18, int(got[1]) == 0x80|(r>>12)&0x3f), zz.And(int(got[2]) == 0x80|(r>>6)&0x3f, int(got[3]) == 0x80|r&0x3f)), "C14/unicode-escape-bytes")
		}
		zz.Reach("C14/unicode-accepted")
	}
}

// HarnessC14Int: integer literals of up to N characters over [0-9a-fA-FxX]: decimal,
// octal and hexadecimal classification, value, and rejection of malformed ones; plus the
// 2^64 boundary (19 fixed digits + 1 symbolic digit): values above 2^64-1 become floats.
func HarnessC14Int() {
	if zz.Bool() {
		d := zz.Byte()
		zz.Assume(zz.And(d >= '0', d <= '9'))
		data := append([]byte("1844674407370955161"), d)
		tok, lval, _ := zzLexOne(data)
		zz.Assert(zz.Iff(tok == _INT_LIT, d <= '5'), "C14/uint64-boundary-int")
		zz.Assert(zz.Iff(tok == _FLOAT_LIT, d > '5'), "C14/uint64-boundary-float")
		if tok == _INT_LIT {
			zz.Assert(lval.i.Val == 18446744073709551610+uint64(d-'0'), "C14/uint64-boundary-value")
		}
		zz.Reach("C14/boundary")
		return
	}
	maxN := 3
	if zz.Tier() == 1 {
		maxN = 4
	}
	n := zz.IntRange(1, maxN)
	s := zz.Bytes(n)
	for i := range s {
		c := s[i]
		okc := zz.Or(zz.And(c >= '0', c <= '9'), zz.Or(zz.And(c >= 'a', c <= 'f'), zz.Or(zz.And(c >= 'A', c <= 'F'), zz.Or(c == 'x', c == 'X'))))
		zz.Assume(okc)
	}
	zz.Assume(zz.And(s[0] >= '0', s[0] <= '9'))
	tok, lval, _ := zzLexOne(s)
	// reference
	isHexLit := n >= 2 && s[0] == '0' && (s[1] == 'x' || s[1] == 'X')
	if !isHexLit {
		for i := range s {
			if s[i] == 'e' || s[i] == 'E' {
				return // float syntax: value not modelled
			}
		}
	}
	valid := true
	var val uint64
	switch {
	case isHexLit:
		if n == 2 {
			valid = false
		}
		for i := 2; i < n; i++ {
			if !zzIsHexB(s[i]) {
				valid = false
			} else {
				val = val*16 + uint64(zzHexVal(s[i]))
			}
		}
	case s[0] == '0':
		for i := 0; i < n; i++ {
			if s[i] < '0' || s[i] > '7' {
				valid = false
			} else {
				val = val*8 + uint64(s[i]-'0')
			}
		}
	default:
		for i := 0; i < n; i++ {
			if s[i] < '0' || s[i] > '9' {
				valid = false
			} else {
				val = val*10 + uint64(s[i]-'0')
			}
		}
	}
	zz.Assert((tok == _INT_LIT) == valid, "C14/int-accept-reject")
	if !valid {
		zz.Assert(tok == _ERROR, "C14/int-malformed-is-error")
	}
	if tok == _INT_LIT && valid {
		zz.Obs(lval.i.Val)
		zz.Assert(lval.i.Val == val, "C14/int-value")
		zz.Reach("C14/int-accepted")
	}
}

// HarnessC14Esc: \uXXXX with four arbitrary ASCII characters X, and \UX0000XXX with four
// arbitrary ASCII characters: accepted exactly when the reference accepts (all hex digits,
// value in range), with the same bytes. (Bodies of this length are beyond HarnessC14Str.)
func HarnessC14Esc() {
	long := zz.Bool()
	sym := zz.Bytes(4)
	for i := range sym {
		zz.Assume(sym[i] < 0x80)
	}
	var data []byte
	if long {
		data = append([]byte(`"\U`), sym[0])
		data = append(data, "0000"...)
		data = append(data, sym[1:]...)
	} else {
		data = append([]byte(`"\u`), sym...)
	}
	data = append(data, '"')
	tok, lval, _ := zzLexOne(data)
	want, ok, rawHigh := zzRefDecode(data[1:], '"')
	if rawHigh {
		return
	}
	zz.Assert((tok == _STRING_LIT) == ok, "C14/unicode-escape-arbitrary-chars-accept-reject")
	if tok == _STRING_LIT && ok {
		zz.Assert(zz.EqBytes([]byte(lval.s.AsString()), want), "C14/unicode-escape-arbitrary-chars-bytes")
	}
	zz.Reach("C14/esc-template")
}
