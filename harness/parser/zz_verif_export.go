//go:build verif

package parser

import (
	"bytes"

	"github.com/bufbuild/protocompile/reporter"
)

// ZZTok is a token of the full parser's lexer, exported for the fastscan harness.
type ZZTok struct {
	Kind int // 1 identifier/keyword, 2 string, 3 number, 4 punctuation
	Text string
	R    rune
}

// ZZLexAll runs the real lexer to EOF. hadErr reports any lexical error.
func ZZLexAll(data []byte) (toks []ZZTok, hadErr bool) {
	errs := 0
	rep := reporter.NewReporter(func(e reporter.ErrorWithPos) error { errs++; return nil }, nil)
	h := reporter.NewHandler(rep)
	lx, err := newLexer(bytes.NewReader(data), "f.proto", h)
	if err != nil {
		return nil, true
	}
	var lval protoSymType
	for i := 0; i < len(data)+3; i++ {
		t := lx.Lex(&lval)
		switch {
		case t == 0:
			return toks, errs > 0
		case t == _ERROR:
			return toks, true
		case t == _STRING_LIT:
			toks = append(toks, ZZTok{Kind: 2, Text: lval.s.AsString()})
		case t == _INT_LIT || t == _FLOAT_LIT:
			toks = append(toks, ZZTok{Kind: 3})
		case t == _NAME || lval.id != nil && t > 255:
			toks = append(toks, ZZTok{Kind: 1, Text: lval.id.Val})
		default:
			toks = append(toks, ZZTok{Kind: 4, R: rune(t)})
		}
		lval = protoSymType{}
	}
	return toks, true
}
