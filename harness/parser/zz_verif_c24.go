//go:build verif

package parser

import (
	"bytes"

	"google.golang.org/protobuf/proto"
	"google.golang.org/protobuf/types/descriptorpb"

	zz "github.com/bufbuild/protocompile/internal/zzverif"
	"github.com/bufbuild/protocompile/reporter"
)

// ---- deep copy of the parts of a FileDescriptorProto that ResultFromAST produces (stands
// in for proto.Clone, which runs through the reflection runtime) ----

func zzCpUn(in []*descriptorpb.UninterpretedOption) []*descriptorpb.UninterpretedOption {
	var out []*descriptorpb.UninterpretedOption
	for _, o := range in {
		n := &descriptorpb.UninterpretedOption{IdentifierValue: o.IdentifierValue, PositiveIntValue: o.PositiveIntValue, NegativeIntValue: o.NegativeIntValue,
			DoubleValue: o.DoubleValue, StringValue: o.StringValue, AggregateValue: o.AggregateValue}
		for _, p := range o.Name {
			n.Name = append(n.Name, &descriptorpb.UninterpretedOption_NamePart{NamePart: p.NamePart, IsExtension: p.IsExtension})
		}
		out = append(out, n)
	}
	return out
}

func zzCpField(f *descriptorpb.FieldDescriptorProto) *descriptorpb.FieldDescriptorProto {
	n := &descriptorpb.FieldDescriptorProto{Name: f.Name, Number: f.Number, Label: f.Label, Type: f.Type, TypeName: f.TypeName, Extendee: f.Extendee,
		DefaultValue: f.DefaultValue, OneofIndex: f.OneofIndex, JsonName: f.JsonName, Proto3Optional: f.Proto3Optional}
	if f.Options != nil {
		n.Options = &descriptorpb.FieldOptions{UninterpretedOption: zzCpUn(f.Options.UninterpretedOption)}
	}
	return n
}

func zzCpEnum(e *descriptorpb.EnumDescriptorProto) *descriptorpb.EnumDescriptorProto {
	n := &descriptorpb.EnumDescriptorProto{Name: e.Name, ReservedName: e.ReservedName}
	if e.Options != nil {
		n.Options = &descriptorpb.EnumOptions{UninterpretedOption: zzCpUn(e.Options.UninterpretedOption)}
	}
	for _, v := range e.Value {
		nv := &descriptorpb.EnumValueDescriptorProto{Name: v.Name, Number: v.Number}
		if v.Options != nil {
			nv.Options = &descriptorpb.EnumValueOptions{UninterpretedOption: zzCpUn(v.Options.UninterpretedOption)}
		}
		n.Value = append(n.Value, nv)
	}
	for _, r := range e.ReservedRange {
		n.ReservedRange = append(n.ReservedRange, &descriptorpb.EnumDescriptorProto_EnumReservedRange{Start: r.Start, End: r.End})
	}
	return n
}

func zzCpMsg(m *descriptorpb.DescriptorProto) *descriptorpb.DescriptorProto {
	n := &descriptorpb.DescriptorProto{Name: m.Name, ReservedName: m.ReservedName}
	if m.Options != nil {
		n.Options = &descriptorpb.MessageOptions{MapEntry: m.Options.MapEntry, UninterpretedOption: zzCpUn(m.Options.UninterpretedOption)}
	}
	for _, f := range m.Field {
		n.Field = append(n.Field, zzCpField(f))
	}
	for _, f := range m.Extension {
		n.Extension = append(n.Extension, zzCpField(f))
	}
	for _, o := range m.OneofDecl {
		no := &descriptorpb.OneofDescriptorProto{Name: o.Name}
		if o.Options != nil {
			no.Options = &descriptorpb.OneofOptions{UninterpretedOption: zzCpUn(o.Options.UninterpretedOption)}
		}
		n.OneofDecl = append(n.OneofDecl, no)
	}
	for _, r := range m.ExtensionRange {
		nr := &descriptorpb.DescriptorProto_ExtensionRange{Start: r.Start, End: r.End}
		if r.Options != nil {
			nr.Options = &descriptorpb.ExtensionRangeOptions{UninterpretedOption: zzCpUn(r.Options.UninterpretedOption)}
		}
		n.ExtensionRange = append(n.ExtensionRange, nr)
	}
	for _, r := range m.ReservedRange {
		n.ReservedRange = append(n.ReservedRange, &descriptorpb.DescriptorProto_ReservedRange{Start: r.Start, End: r.End})
	}
	for _, x := range m.NestedType {
		n.NestedType = append(n.NestedType, zzCpMsg(x))
	}
	for _, e := range m.EnumType {
		n.EnumType = append(n.EnumType, zzCpEnum(e))
	}
	return n
}

// zzProtoClone replaces proto.Clone under the VM.
func zzProtoClone(m proto.Message) proto.Message {
	in := m.(*descriptorpb.FileDescriptorProto)
	out := &descriptorpb.FileDescriptorProto{Name: in.Name, Package: in.Package, Syntax: in.Syntax, Edition: in.Edition}
	out.Dependency = append(out.Dependency, in.Dependency...)
	out.PublicDependency = append(out.PublicDependency, in.PublicDependency...)
	out.WeakDependency = append(out.WeakDependency, in.WeakDependency...)
	if in.Options != nil {
		out.Options = &descriptorpb.FileOptions{UninterpretedOption: zzCpUn(in.Options.UninterpretedOption)}
	}
	for _, x := range in.MessageType {
		out.MessageType = append(out.MessageType, zzCpMsg(x))
	}
	for _, e := range in.EnumType {
		out.EnumType = append(out.EnumType, zzCpEnum(e))
	}
	for _, f := range in.Extension {
		out.Extension = append(out.Extension, zzCpField(f))
	}
	for _, s := range in.Service {
		ns := &descriptorpb.ServiceDescriptorProto{Name: s.Name}
		if s.Options != nil {
			ns.Options = &descriptorpb.ServiceOptions{UninterpretedOption: zzCpUn(s.Options.UninterpretedOption)}
		}
		for _, mt := range s.Method {
			nm := &descriptorpb.MethodDescriptorProto{Name: mt.Name, InputType: mt.InputType, OutputType: mt.OutputType, ClientStreaming: mt.ClientStreaming, ServerStreaming: mt.ServerStreaming}
			if mt.Options != nil {
				nm.Options = &descriptorpb.MethodOptions{UninterpretedOption: zzCpUn(mt.Options.UninterpretedOption)}
			}
			ns.Method = append(ns.Method, nm)
		}
		out.Service = append(out.Service, ns)
	}
	return out
}

// ---- parallel walk: every element of the clone maps to the node of the original ----

func zzSameUn(o, c Result, a, b []*descriptorpb.UninterpretedOption) {
	zz.Assert(len(a) == len(b), "C24/clone-has-the-same-options")
	for i := range a {
		zz.Assert(b[i] != a[i], "C24/clone-shares-no-option-message")
		zz.Assert(c.OptionNode(b[i]) == o.OptionNode(a[i]), "C24/option-node-lookup")
		for j := range a[i].Name {
			zz.Assert(c.OptionNamePartNode(b[i].Name[j]) == o.OptionNamePartNode(a[i].Name[j]), "C24/option-name-part-node-lookup")
		}
	}
}

func zzSameField(o, c Result, a, b *descriptorpb.FieldDescriptorProto) {
	zz.Assert(a != b, "C24/clone-shares-no-field-message")
	zz.Assert(c.FieldNode(b) == o.FieldNode(a), "C24/field-node-lookup")
	zzSameUn(o, c, a.GetOptions().GetUninterpretedOption(), b.GetOptions().GetUninterpretedOption())
}

func zzSameEnum(o, c Result, a, b *descriptorpb.EnumDescriptorProto) {
	zz.Assert(c.EnumNode(b) == o.EnumNode(a), "C24/enum-node-lookup")
	zzSameUn(o, c, a.GetOptions().GetUninterpretedOption(), b.GetOptions().GetUninterpretedOption())
	for i := range a.Value {
		zz.Assert(c.EnumValueNode(b.Value[i]) == o.EnumValueNode(a.Value[i]), "C24/enum-value-node-lookup")
		zzSameUn(o, c, a.Value[i].GetOptions().GetUninterpretedOption(), b.Value[i].GetOptions().GetUninterpretedOption())
	}
	for i := range a.ReservedRange {
		zz.Assert(c.EnumReservedRangeNode(b.ReservedRange[i]) == o.EnumReservedRangeNode(a.ReservedRange[i]), "C24/enum-reserved-range-node-lookup")
	}
}

func zzSameMsg(o, c Result, a, b *descriptorpb.DescriptorProto) {
	zz.Assert(a != b, "C24/clone-shares-no-message")
	zz.Assert(c.MessageNode(b) == o.MessageNode(a), "C24/message-node-lookup")
	zzSameUn(o, c, a.GetOptions().GetUninterpretedOption(), b.GetOptions().GetUninterpretedOption())
	for i := range a.Field {
		zzSameField(o, c, a.Field[i], b.Field[i])
	}
	for i := range a.Extension {
		zzSameField(o, c, a.Extension[i], b.Extension[i])
	}
	for i := range a.OneofDecl {
		zz.Assert(c.OneofNode(b.OneofDecl[i]) == o.OneofNode(a.OneofDecl[i]), "C24/oneof-node-lookup")
		zzSameUn(o, c, a.OneofDecl[i].GetOptions().GetUninterpretedOption(), b.OneofDecl[i].GetOptions().GetUninterpretedOption())
	}
	for i := range a.ExtensionRange {
		zz.Assert(c.ExtensionRangeNode(b.ExtensionRange[i]) == o.ExtensionRangeNode(a.ExtensionRange[i]), "C24/extension-range-node-lookup")
		zz.Assert(c.ExtensionsNode(b.ExtensionRange[i]) == o.ExtensionsNode(a.ExtensionRange[i]), "C24/extensions-node-lookup")
		zzSameUn(o, c, a.ExtensionRange[i].GetOptions().GetUninterpretedOption(), b.ExtensionRange[i].GetOptions().GetUninterpretedOption())
	}
	for i := range a.ReservedRange {
		zz.Assert(c.MessageReservedRangeNode(b.ReservedRange[i]) == o.MessageReservedRangeNode(a.ReservedRange[i]), "C24/message-reserved-range-node-lookup")
	}
	for i := range a.NestedType {
		zzSameMsg(o, c, a.NestedType[i], b.NestedType[i])
	}
	for i := range a.EnumType {
		zzSameEnum(o, c, a.EnumType[i], b.EnumType[i])
	}
}

var zzC24Pieces = []string{
	"option java_package = \"x\";\noption (a.b).c = 1;\n",
	"message M {\n  option deprecated = true;\n  optional int32 f = 1 [deprecated = true, (x) = {a: 1}];\n  oneof o { option (y) = 1; string s = 2; bytes b = 3 [ctype = CORD]; }\n  reserved 100 to 200, 300;\n  reserved \"r\";\n}\n",
	"message N {\n  map<string, N> m = 1 [deprecated = true];\n  optional group G = 2 { optional int32 x = 1; }\n  message Inner { enum IE { IZ = 0; } optional IE e = 1; }\n  extensions 10 to 20, 30 [(z) = 1];\n  extend N { optional int32 ne = 11 [packed = false]; }\n}\n",
	"enum E {\n  option allow_alias = true;\n  A = 0 [deprecated = true];\n  B = 0;\n  reserved 5 to 7, 9;\n  reserved \"Q\";\n}\n",
	"extend M2 { optional string top = 500 [(w) = \"v\"]; }\nmessage M2 { extensions 500 to max; }\n",
	"service S {\n  option deprecated = true;\n  rpc Get(M2) returns (stream M2) { option idempotency_level = IDEMPOTENT; }\n  rpc Put(stream M2) returns (M2);\n}\n",
}

// HarnessC24: a proto2 source assembled from an arbitrary subset of six declaration groups
// (file options, messages with fields/oneofs/reserved/options, maps/groups/nested/extension
// ranges/nested extends, enums, top-level extends, services) goes through the real lexer,
// LR parser and ResultFromAST; parser.Clone (with proto.Clone replaced by an explicit deep
// copy) must give a result that shares no descriptor message with the original and whose
// node lookups return, for every element, the node the original returns. Also: the clone of
// an AST-less result (ResultWithoutAST) still answers every lookup with its placeholder.
func HarnessC24() {
	var src []byte
	src = append(src, "syntax = \"proto2\";\npackage p;\n"...)
	for _, piece := range zzC24Pieces {
		if zz.Choice(2) == 1 {
			src = append(src, piece...)
		}
	}
	h := reporter.NewHandler(reporter.NewReporter(func(reporter.ErrorWithPos) error { return nil }, nil))
	file, err := Parse("c.proto", bytes.NewReader(src), h)
	zz.Assert(err == nil && file != nil, "C24/template-parses")
	if err != nil || file == nil {
		return
	}
	orig, err := ResultFromAST(file, true, h)
	zz.Assert(err == nil, "C24/template-converts")
	if err != nil {
		return
	}
	noAST := zz.Choice(2) == 1
	if noAST {
		orig = ResultWithoutAST(orig.FileDescriptorProto())
	}
	cl := Clone(orig)
	a, b := orig.FileDescriptorProto(), cl.FileDescriptorProto()
	zz.Assert(a != b, "C24/clone-has-its-own-file-descriptor")
	zz.Assert(cl.AST() == orig.AST(), "C24/clone-keeps-the-ast")
	zz.Assert(cl.FileNode() == orig.FileNode(), "C24/file-node-lookup")
	zz.Assert(cl.Node(b) == orig.Node(a), "C24/generic-node-lookup")
	zzSameUn(orig, cl, a.GetOptions().GetUninterpretedOption(), b.GetOptions().GetUninterpretedOption())
	zz.Assert(len(a.MessageType) == len(b.MessageType) && len(a.EnumType) == len(b.EnumType) && len(a.Service) == len(b.Service) && len(a.Extension) == len(b.Extension), "C24/clone-has-the-same-elements")
	for i := range a.MessageType {
		zzSameMsg(orig, cl, a.MessageType[i], b.MessageType[i])
	}
	for i := range a.EnumType {
		zzSameEnum(orig, cl, a.EnumType[i], b.EnumType[i])
	}
	for i := range a.Extension {
		zzSameField(orig, cl, a.Extension[i], b.Extension[i])
	}
	for i := range a.Service {
		zz.Assert(cl.ServiceNode(b.Service[i]) == orig.ServiceNode(a.Service[i]), "C24/service-node-lookup")
		zzSameUn(orig, cl, a.Service[i].GetOptions().GetUninterpretedOption(), b.Service[i].GetOptions().GetUninterpretedOption())
		for j := range a.Service[i].Method {
			zz.Assert(cl.MethodNode(b.Service[i].Method[j]) == orig.MethodNode(a.Service[i].Method[j]), "C24/method-node-lookup")
			zzSameUn(orig, cl, a.Service[i].Method[j].GetOptions().GetUninterpretedOption(), b.Service[i].Method[j].GetOptions().GetUninterpretedOption())
		}
	}
	zz.Reach("C24/walked")
}
