//go:build verif

package linker

import (
	"strings"

	"google.golang.org/protobuf/proto"
	"google.golang.org/protobuf/types/descriptorpb"

	zz "github.com/bufbuild/protocompile/internal/zzverif"
	"github.com/bufbuild/protocompile/parser"
	"github.com/bufbuild/protocompile/reporter"
)

// zzLetter returns a one-letter identifier whose letter is symbolic over {a, b, M}.
func zzLetter() string {
	c := zz.Byte()
	zz.Assume(zz.Or(c == 'a', zz.Or(c == 'b', c == 'M')))
	return string([]byte{c})
}

func zzIsAgg(k string) bool { return k == "msg" || k == "enum" || k == "pkg" || k == "svc" }
func zzIsTyp(k string) bool { return k == "msg" || k == "enum" }

// zzRefLookup transcribes protoc's DescriptorBuilder::LookupSymbolNoPlaceholder
// (descriptor.cc) for a reference from the scope relativeTo: innermost scope outward, first
// component match, "found the first part but not the rest: stop", non-types skipped only
// for unqualified names when a type is wanted.
func zzRefLookup(syms map[string]string, name, relativeTo string) (string, bool) {
	finish := func(fq string) (string, bool) {
		k, ok := syms[fq]
		if !ok || !zzIsTyp(k) {
			return "", false
		}
		return fq, true
	}
	if strings.HasPrefix(name, ".") {
		return finish(name[1:])
	}
	first := name
	if i := strings.IndexByte(name, '.'); i >= 0 {
		first = name[:i]
	}
	scope := relativeTo
	for {
		dot := strings.LastIndexByte(scope, '.')
		if dot == -1 {
			// global scope
			if k, ok := syms[first]; ok {
				if len(first) < len(name) {
					if zzIsAgg(k) {
						return finish(name)
					}
					return "", false
				}
				if zzIsTyp(k) {
					return first, true
				}
			}
			return "", false
		}
		scope = scope[:dot]
		cand := scope + "." + first
		if k, ok := syms[cand]; ok {
			if len(first) < len(name) {
				if zzIsAgg(k) {
					return finish(scope + "." + name)
				}
			} else if zzIsTyp(k) {
				return cand, true
			}
		}
	}
}

func zzAddPkg(syms map[string]string, pkg string) {
	for pkg != "" {
		if _, ok := syms[pkg]; !ok {
			syms[pkg] = "pkg"
		}
		i := strings.LastIndexByte(pkg, '.')
		if i < 0 {
			break
		}
		pkg = pkg[:i]
	}
}

// HarnessC15: two files. dep.proto (package "", x or x.y with symbolic letters) defines one
// message and one enum; main.proto (package with 0..3 symbolic components) imports it and
// defines message Outer { message <N> {}  int32 <F> = 2;  <ref> f = 1; } where every name
// is a symbolic letter from {a,b,M} and <ref> has one or two components and an optional
// leading dot. Linking succeeds exactly when the transcribed protoc lookup finds a message
// or enum, and the resolved type_name is that element.
func HarnessC15() {
	// dep
	dpkg := ""
	for i, n := 0, zz.IntRange(0, 2); i < n; i++ {
		if dpkg != "" {
			dpkg += "."
		}
		dpkg += zzLetter()
	}
	dmsg, denum := zzLetter(), zzLetter()
	zz.Assume(dmsg != denum)
	dep := &descriptorpb.FileDescriptorProto{Name: proto.String("dep.proto"), Syntax: proto.String("proto2"),
		MessageType: []*descriptorpb.DescriptorProto{{Name: proto.String(dmsg)}},
		EnumType:    []*descriptorpb.EnumDescriptorProto{{Name: proto.String(denum), Value: []*descriptorpb.EnumValueDescriptorProto{{Name: proto.String("ZZ_V0"), Number: proto.Int32(0)}}}}}
	dprefix := ""
	if dpkg != "" {
		dep.Package = proto.String(dpkg)
		dprefix = dpkg + "."
	}
	// main
	mpkg := ""
	maxc := 3
	for i, n := 0, zz.IntRange(0, maxc); i < n; i++ {
		if mpkg != "" {
			mpkg += "."
		}
		mpkg += zzLetter()
	}
	nested, fld2 := zzLetter(), zzLetter()
	zz.Assume(nested != fld2)
	ref := zzLetter()
	if zz.Bool() {
		ref += "." + zzLetter()
	}
	if zz.Bool() {
		ref = "." + ref
	}
	mprefix := ""
	if mpkg != "" {
		mprefix = mpkg + "."
	}
	main := &descriptorpb.FileDescriptorProto{Name: proto.String("main.proto"), Syntax: proto.String("proto2"), Dependency: []string{"dep.proto"},
		MessageType: []*descriptorpb.DescriptorProto{{Name: proto.String("Outer"),
			NestedType: []*descriptorpb.DescriptorProto{{Name: proto.String(nested)}},
			Field: []*descriptorpb.FieldDescriptorProto{
				{Name: proto.String("f"), Number: proto.Int32(1), Label: descriptorpb.FieldDescriptorProto_LABEL_OPTIONAL.Enum(), TypeName: proto.String(ref)},
				{Name: proto.String(fld2), Number: proto.Int32(2), Label: descriptorpb.FieldDescriptorProto_LABEL_OPTIONAL.Enum(), Type: descriptorpb.FieldDescriptorProto_TYPE_INT32.Enum()},
			}}}}
	if mpkg != "" {
		main.Package = proto.String(mpkg)
	}
	// a service in main.proto's package: an aggregate (a dotted reference whose first
	// component names it commits to that scope) that is not a type
	svc := zzLetter()
	main.Service = []*descriptorpb.ServiceDescriptorProto{{Name: proto.String(svc)}}
	// symbol table of the reference
	syms := map[string]string{}
	zzAddPkg(syms, dpkg)
	zzAddPkg(syms, mpkg)
	syms[dprefix+dmsg] = "msg"
	syms[dprefix+denum] = "enum"
	syms[dprefix+"ZZ_V0"] = "other"
	syms[mprefix+"Outer"] = "msg"
	syms[mprefix+"Outer."+nested] = "msg"
	syms[mprefix+"Outer."+fld2] = "other"
	syms[mprefix+"Outer.f"] = "other"
	syms[mprefix+svc] = "svc"
	zz.Assume(mprefix+svc != dprefix+dmsg && mprefix+svc != dprefix+denum)
	zz.Assume(mprefix+svc != dpkg && !strings.HasPrefix(dpkg, mprefix+svc+"."))
	// files must link on their own merits: a symbol may not collide with a package
	for _, n := range []string{dprefix + dmsg, dprefix + denum} {
		zz.Assume(n != mpkg && !strings.HasPrefix(mpkg, n+"."))
		zz.Assume(n != dpkg && !strings.HasPrefix(dpkg, n+"."))
	}
	zz.Assume(mprefix+"Outer" != dprefix+dmsg && mprefix+"Outer" != dprefix+denum)

	hd := reporter.NewHandler(nil)
	syt := &Symbols{}
	depRes, err := Link(parser.ResultWithoutAST(dep), nil, syt, hd)
	zz.Assume(err == nil)
	hm := reporter.NewHandler(nil)
	res, err := Link(parser.ResultWithoutAST(main), Files{depRes}, syt, hm)

	want, ok := zzRefLookup(syms, ref, mprefix+"Outer.f")
	zz.Reach("C15/linked")
	zz.Assert((err == nil) == ok, "C15/resolves-exactly-when-protoc-does")
	if err == nil && ok {
		got := res.FileDescriptorProto().MessageType[0].Field[0].GetTypeName()
		zz.ObsStr(got)
		zz.Assert(got == "."+want, "C15/resolves-to-the-element-protoc-resolves-to")
		// C10: resolving the already-qualified name again is the identity
		main.MessageType[0].Field[0].TypeName = proto.String(got)
		_ = main
	}
}
