//go:build verif

package linker

import (
	"google.golang.org/protobuf/proto"
	"google.golang.org/protobuf/reflect/protoreflect"
	"google.golang.org/protobuf/types/descriptorpb"

	zz "github.com/bufbuild/protocompile/internal/zzverif"
	"github.com/bufbuild/protocompile/parser"
	"github.com/bufbuild/protocompile/reporter"
)

const zzNF = 4

var zzPaths = []string{"f0.proto", "f1.proto", "f2.proto", "f3.proto"}
var zzMsgs = []string{"M0", "M1", "M2", "M3"}

type zzImp struct {
	to  int
	pub bool
}

// zzGraph picks, for every file i, an ordered list of 0..2 distinct imports among the
// files with a higher index (so the graph is acyclic), each public or not.
func zzGraph() [zzNF][]zzImp {
	var g [zzNF][]zzImp
	for i := 0; i < zzNF-1; i++ {
		nc := zzNF - 1 - i
		n := zz.IntRange(0, 2)
		if n > nc {
			n = nc
		}
		used := -1
		for k := 0; k < n; k++ {
			t := i + 1 + zz.Choice(nc)
			zz.Assume(t != used)
			used = t
			g[i] = append(g[i], zzImp{t, zz.Bool()})
		}
	}
	return g
}

// zzVisible computes the reference visibility set of file f: f itself, its direct imports,
// and everything reachable from a direct import through public imports only.
func zzVisible(g [zzNF][]zzImp, f int, skip int) [zzNF]bool {
	var vis [zzNF]bool
	vis[f] = true
	var pubReach func(i int)
	pubReach = func(i int) {
		if vis[i] {
			return
		}
		vis[i] = true
		for _, e := range g[i] {
			if e.pub {
				pubReach(e.to)
			}
		}
	}
	for k, e := range g[f] {
		if k == skip {
			continue
		}
		vis[e.to] = false || vis[e.to]
		pubReach(e.to)
	}
	return vis
}

func zzLinkGraph(g [zzNF][]zzImp, uses [zzNF]bool) (res [zzNF]Result, err0 error, h0 *reporter.Handler, warned map[string]bool) {
	warned = map[string]bool{}
	for i := zzNF - 1; i >= 0; i-- {
		fdp := &descriptorpb.FileDescriptorProto{Name: proto.String(zzPaths[i]), Syntax: proto.String("proto2"),
			MessageType: []*descriptorpb.DescriptorProto{{Name: proto.String(zzMsgs[i]),
				ExtensionRange: []*descriptorpb.DescriptorProto_ExtensionRange{{Start: proto.Int32(100), End: proto.Int32(201)}}}},
			Extension: []*descriptorpb.FieldDescriptorProto{{Name: proto.String("e" + zzMsgs[i]), Number: proto.Int32(100), Extendee: proto.String("." + zzMsgs[i]),
				Label: descriptorpb.FieldDescriptorProto_LABEL_OPTIONAL.Enum(), Type: descriptorpb.FieldDescriptorProto_TYPE_INT32.Enum()}}}
		var deps Files
		for k, e := range g[i] {
			fdp.Dependency = append(fdp.Dependency, zzPaths[e.to])
			if e.pub {
				fdp.PublicDependency = append(fdp.PublicDependency, int32(k))
			}
			deps = append(deps, res[e.to])
		}
		if i == 0 {
			n := int32(1)
			for j := 1; j < zzNF; j++ {
				if uses[j] {
					fdp.MessageType[0].Field = append(fdp.MessageType[0].Field, &descriptorpb.FieldDescriptorProto{
						Name: proto.String("u" + zzMsgs[j]), Number: proto.Int32(n), Label: descriptorpb.FieldDescriptorProto_LABEL_OPTIONAL.Enum(), TypeName: proto.String(zzMsgs[j])})
					n++
				}
			}
		}
		rep := reporter.NewReporter(nil, func(w reporter.ErrorWithPos) {
			if ui, ok := w.Unwrap().(interface{ UnusedImport() string }); ok {
				warned[ui.UnusedImport()] = true
			}
		})
		h := reporter.NewHandler(rep)
		r, err := Link(parser.ResultWithoutAST(fdp), deps, &Symbols{}, h)
		if i == 0 {
			err0, h0 = err, h
			if err == nil {
				res[0] = r
			}
			return
		}
		zz.Assume(err == nil)
		res[i] = r
	}
	return
}

// HarnessC18: every acyclic import graph on 4 files (ordered import lists of length <= 2,
// public or not). A resolver built from f0 finds the message, the file and the extension
// (by number) of file j - j symbolic - exactly when j is visible from f0.
func HarnessC18() {
	g := zzGraph()
	res, err0, _, _ := zzLinkGraph(g, [zzNF]bool{})
	zz.Assert(err0 == nil, "C18/files-link")
	if err0 != nil {
		return
	}
	vis := zzVisible(g, 0, -1)
	d := zz.Byte()
	zz.Assume(zz.And(d >= '0', d <= '3'))
	want := zz.Or(zz.And(d == '0', vis[0]), zz.Or(zz.And(d == '1', vis[1]), zz.Or(zz.And(d == '2', vis[2]), zz.And(d == '3', vis[3]))))
	rs := ResolverFromFile(res[0])
	name := "M" + string([]byte{d})
	_, e1 := rs.FindDescriptorByName(protoreflect.FullName(name))
	zz.Assert(zz.Iff(e1 == nil, want), "C18/find-by-name-iff-visible")
	_, e2 := rs.FindFileByPath("f" + string([]byte{d}) + ".proto")
	zz.Assert(zz.Iff(e2 == nil, want), "C18/find-file-iff-visible")
	_, e3 := rs.FindExtensionByNumber(protoreflect.FullName(name), 100)
	zz.Assert(zz.Iff(e3 == nil, want), "C18/find-extension-by-number-iff-visible")
	_, e4 := rs.FindExtensionByName(protoreflect.FullName("e" + name))
	zz.Assert(zz.Iff(e4 == nil, want), "C18/find-extension-by-name-iff-visible")
	zz.Reach("C18/queried")
}

// HarnessC19: f0 uses a symbolic set of the other files' messages (as field types). After
// linking, CheckForUnusedImports warns about a direct non-public import exactly when every
// used message stays visible with that import removed.
func HarnessC19() {
	g := zzGraph()
	var uses [zzNF]bool
	vis := zzVisible(g, 0, -1)
	for j := 1; j < zzNF; j++ {
		uses[j] = zz.Bool()
		if uses[j] {
			zz.Assume(vis[j])
		}
	}
	res, err0, h0, warned := zzLinkGraph(g, uses)
	zz.Assert(err0 == nil, "C19/file-with-visible-references-links")
	if err0 != nil {
		return
	}
	res[0].(*result).CheckForUnusedImports(h0)
	// Recorded finding C19/first-provider-marked: a used message is visible through more
	// than one direct import of f0.
	kn := false
	for j := 1; j < zzNF; j++ {
		if !uses[j] {
			continue
		}
		n := 0
		for k := range g[0] {
			var only [zzNF][]zzImp = g
			only[0] = []zzImp{g[0][k]}
			if zzVisible(only, 0, -1)[j] {
				n++
			}
		}
		if n > 1 {
			kn = true
		}
	}
	zz.Known("C19/first-provider-marked", kn)
	for k, e := range g[0] {
		if e.pub {
			zz.Assert(!warned[zzPaths[e.to]], "C19/public-import-never-warned")
			continue
		}
		without := zzVisible(g, 0, k)
		removable := true
		for j := 1; j < zzNF; j++ {
			if uses[j] && !without[j] {
				removable = false
			}
		}
		zz.Assert(warned[zzPaths[e.to]] == removable, "C19/warned-iff-removable")
		if !removable {
			zz.Assert(!warned[zzPaths[e.to]], "C19/needed-import-never-warned")
		}
	}
	zz.Reach("C19/checked")
}
