//go:build verif

package linker

import (
	"google.golang.org/protobuf/proto"
	"google.golang.org/protobuf/types/descriptorpb"

	zz "github.com/bufbuild/protocompile/internal/zzverif"
	"github.com/bufbuild/protocompile/parser"
	"github.com/bufbuild/protocompile/reporter"
)

// HarnessC01ExtDecl: extension declarations (protoc: DescriptorBuilder::CheckExtensionDeclaration).
// base.proto: message X with two adjacent-or-separate extension ranges with arbitrary int32
// bounds, one of them (either) carrying a declaration {number dn, full_name ".e", type
// "int32"}; main.proto extends X with `optional int32 e = n` for an arbitrary n. After the
// real Link, (*result).validateExtension accepts exactly when protoc does: n lies in the
// range without declarations, or n lies in the declared range and a declaration with that
// number exists (name and type match by construction).
func HarnessC01ExtDecl() {
	s1, e1, s2, e2 := int32(zz.I32()), int32(zz.I32()), int32(zz.I32()), int32(zz.I32())
	zz.Assume(zz.And(zz.And(1 <= s1, s1 < e1), zz.And(e1 <= s2, zz.And(s2 < e2, e2 <= 536870912))))
	n, dn := int32(zz.I32()), int32(zz.I32())
	zz.Assume(zz.And(1 <= n, n <= 536870911))
	zz.Assume(zz.Or(n < 19000, n > 19999))
	declFirst := zz.Bool()
	decl := &descriptorpb.ExtensionRangeOptions{Declaration: []*descriptorpb.ExtensionRangeOptions_Declaration{
		{Number: proto.Int32(dn), FullName: proto.String(".e"), Type: proto.String("int32")}}}
	r1 := &descriptorpb.DescriptorProto_ExtensionRange{Start: proto.Int32(s1), End: proto.Int32(e1)}
	r2 := &descriptorpb.DescriptorProto_ExtensionRange{Start: proto.Int32(s2), End: proto.Int32(e2)}
	ds, de := s1, e1
	if declFirst {
		r1.Options = decl
	} else {
		r2.Options = decl
		ds, de = s2, e2
	}
	zz.Assume(zz.And(ds <= dn, dn < de)) // the declaration itself is valid for its range
	base := &descriptorpb.FileDescriptorProto{Name: proto.String("base.proto"), Syntax: proto.String("proto2"),
		MessageType: []*descriptorpb.DescriptorProto{{Name: proto.String("X"), ExtensionRange: []*descriptorpb.DescriptorProto_ExtensionRange{r1, r2}}}}
	main := &descriptorpb.FileDescriptorProto{Name: proto.String("main.proto"), Syntax: proto.String("proto2"), Dependency: []string{"base.proto"},
		Extension: []*descriptorpb.FieldDescriptorProto{{Name: proto.String("e"), Number: proto.Int32(n), Extendee: proto.String(".X"),
			Label: descriptorpb.FieldDescriptorProto_LABEL_OPTIONAL.Enum(), Type: descriptorpb.FieldDescriptorProto_TYPE_INT32.Enum()}}}
	syms := &Symbols{}
	baseRes, err := Link(parser.ResultWithoutAST(base), nil, syms, reporter.NewHandler(nil))
	zz.Assume(err == nil)
	res, err := Link(parser.ResultWithoutAST(main), Files{baseRes}, syms, reporter.NewHandler(nil))
	inAny := zz.Or(zz.And(s1 <= n, n < e1), zz.And(s2 <= n, n < e2))
	zz.Assert(zz.Iff(err == nil, inAny), "C01/extension-number-must-lie-in-an-extension-range")
	if err != nil {
		return
	}
	r := res.(*result)
	errs := 0
	h := reporter.NewHandler(reporter.NewReporter(func(reporter.ErrorWithPos) error { errs++; return nil }, nil))
	_ = r.validateExtension(&r.extensions.exts[0].field, h)
	inDeclared := zz.And(ds <= n, n < de)
	accept := zz.Or(!inDeclared, dn == n)
	zz.Assert(zz.Iff(errs == 0, accept), "C01/extension-declaration-verdict")
	zz.Reach("C01/ext-decl-checked")
}
