//go:build verif

package linker

import (
	"sync"

	"google.golang.org/protobuf/reflect/protoreflect"

	zz "github.com/bufbuild/protocompile/internal/zzverif"
	"github.com/bufbuild/protocompile/reporter"
)

// HarnessC16Sched: two goroutines import two user files into one shared table while a
// third performs lookups, under EVERY schedule with a bounded number of deviations from the
// default scheduler (switches at mutex operations): nothing deadlocks, every map access
// happens under its package lock (lock-set, as in HarnessC16Locks, but now with the other
// goroutines' critical sections interleaved), the collision verdict is the one sequential
// imports give (exactly one of two clashing files fails, none of two compatible ones), and
// afterwards every name of a successfully imported file resolves.
func HarnessC16Sched() {
	base := zzLinkFile(zzBaseFile(), nil)
	deps := Files{base}
	fdp1, fqns1, he1, tag1 := zzUserFile("f1.proto", "e1")
	fdp2, fqns2, he2, tag2 := zzUserFile("f2.proto", "e2")
	// quick: one message per file, delay bound 1. thorough: files with up to two messages,
	// delay bound 1.
	deep := false // (a deeper delay bound on this harness exceeded the time budget)
	if zz.Tier() == 0 || deep {
		zz.Assume(len(fdp1.MessageType) == 1 && len(fdp2.MessageType) == 1)
	}
	r1 := zzLinkFile(fdp1, deps)
	r2 := zzLinkFile(fdp2, deps)
	// sequential verdict (fresh table): does the second import fail?
	ref := &Symbols{}
	zz.Assume(ref.Import(r1, reporter.NewHandler(nil)) == nil)
	wantClash := ref.Import(r2, reporter.NewHandler(nil)) != nil
	ref2 := &Symbols{}
	zz.Assume(ref2.Import(r2, reporter.NewHandler(nil)) == nil)
	_, _, _, _ = he1, he2, tag1, tag2

	pre := 1
	if deep {
		pre = 2
	}
	syms := &Symbols{}
	zz.Assume(syms.Import(base, reporter.NewHandler(nil)) == nil)
	zzGuardAll(&syms.pkgTrie, 0)
	zz.Schedule(pre)
	var wg sync.WaitGroup
	var e1, e2 error
	wg.Add(3)
	go func() { defer wg.Done(); e1 = syms.Import(r1, reporter.NewHandler(nil)) }()
	go func() { defer wg.Done(); e2 = syms.Import(r2, reporter.NewHandler(nil)) }()
	go func() {
		defer wg.Done()
		_ = syms.Lookup(protoreflect.FullName(fqns1[0]))
		_ = syms.LookupExtension("base.X", 100)
	}()
	wg.Wait()
	if wantClash {
		zz.Assert((e1 != nil) != (e2 != nil), "C16/exactly-one-of-two-clashing-concurrent-imports-fails")
	} else {
		zz.Assert(e1 == nil && e2 == nil, "C16/compatible-concurrent-imports-both-succeed")
	}
	if e1 == nil {
		for _, n := range fqns1 {
			zz.Assert(syms.Lookup(protoreflect.FullName(n)) != nil, "C16/names-of-imported-file-resolve")
		}
	}
	if e2 == nil {
		for _, n := range fqns2 {
			zz.Assert(syms.Lookup(protoreflect.FullName(n)) != nil, "C16/names-of-imported-file-resolve")
		}
	}
	zz.Assert(zz.Held(&syms.pkgTrie.mu) == 0, "C16/root-lock-released-after-concurrent-imports")
	zz.Reach("C16/sched-done")
}
