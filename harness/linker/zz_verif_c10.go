//go:build verif

package linker

import (
	"google.golang.org/protobuf/proto"
	"google.golang.org/protobuf/types/descriptorpb"

	zz "github.com/bufbuild/protocompile/internal/zzverif"
	"github.com/bufbuild/protocompile/parser"
	"github.com/bufbuild/protocompile/reporter"
)

// HarnessC10Relink: take the descriptor protos produced by a successful link (type names
// now fully qualified, enum-typed fields now marked TYPE_ENUM) and link them again as
// descriptor protos with a fresh symbol table: linking succeeds and every resolved field
// (type name, field type, extendee) is unchanged. Files: dep (message + enum with symbolic
// names in a symbolic package) and main (a field with a symbolic relative type reference,
// an extension of the dep message with a symbolic relative extendee reference).
func HarnessC10Relink() {
	dpkg := ""
	if zz.Bool() {
		dpkg = zzLetter()
	}
	dmsg, denum := zzLetter(), zzLetter()
	zz.Assume(dmsg != denum)
	zz.Assume(dmsg != dpkg && denum != dpkg)
	dep := &descriptorpb.FileDescriptorProto{Name: proto.String("dep.proto"), Syntax: proto.String("proto2"),
		MessageType: []*descriptorpb.DescriptorProto{{Name: proto.String(dmsg),
			ExtensionRange: []*descriptorpb.DescriptorProto_ExtensionRange{{Start: proto.Int32(100), End: proto.Int32(200)}}}},
		EnumType: []*descriptorpb.EnumDescriptorProto{{Name: proto.String(denum), Value: []*descriptorpb.EnumValueDescriptorProto{{Name: proto.String("ZZ_V0"), Number: proto.Int32(0)}}}}}
	if dpkg != "" {
		dep.Package = proto.String(dpkg)
	}
	mpkg := ""
	if zz.Bool() {
		mpkg = zzLetter()
	}
	ref := zzLetter()
	if zz.Bool() {
		ref = zzLetter() + "." + ref
	}
	ext := zzLetter()
	if zz.Bool() {
		ext = zzLetter() + "." + ext
	}
	main := &descriptorpb.FileDescriptorProto{Name: proto.String("main.proto"), Syntax: proto.String("proto2"), Dependency: []string{"dep.proto"},
		MessageType: []*descriptorpb.DescriptorProto{{Name: proto.String("Outer"),
			Field: []*descriptorpb.FieldDescriptorProto{
				{Name: proto.String("f"), Number: proto.Int32(1), Label: descriptorpb.FieldDescriptorProto_LABEL_OPTIONAL.Enum(), TypeName: proto.String(ref)},
			}}},
		Extension: []*descriptorpb.FieldDescriptorProto{{Name: proto.String("zzext"), Number: proto.Int32(150), Extendee: proto.String(ext),
			Label: descriptorpb.FieldDescriptorProto_LABEL_OPTIONAL.Enum(), Type: descriptorpb.FieldDescriptorProto_TYPE_INT32.Enum()}}}
	if mpkg != "" {
		main.Package = proto.String(mpkg)
	}
	zz.Assume(mpkg != dmsg && mpkg != denum)

	syt := &Symbols{}
	depRes, err := Link(parser.ResultWithoutAST(dep), nil, syt, reporter.NewHandler(nil))
	zz.Assume(err == nil)
	res, err := Link(parser.ResultWithoutAST(main), Files{depRes}, syt, reporter.NewHandler(nil))
	if err != nil {
		return // the references do not resolve: nothing to re-link
	}
	zz.Reach("C10/first-link-succeeded")
	out := res.FileDescriptorProto()
	f1 := out.MessageType[0].Field[0]
	x1 := out.Extension[0]
	t1, ty1, e1 := f1.GetTypeName(), f1.GetType(), x1.GetExtendee()
	zz.Assert(len(t1) > 0 && t1[0] == '.', "C10/resolved-type-name-is-absolute")
	zz.Assert(len(e1) > 0 && e1[0] == '.', "C10/resolved-extendee-is-absolute")

	// second generation: both outputs, as descriptor protos, fresh table
	dep2 := zzCopyFDP(depRes.FileDescriptorProto())
	main2 := zzCopyFDP(out)
	syt2 := &Symbols{}
	depRes2, err := Link(parser.ResultWithoutAST(dep2), nil, syt2, reporter.NewHandler(nil))
	zz.Assert(err == nil, "C10/relinking-the-dependency-succeeds")
	if err != nil {
		return
	}
	res2, err := Link(parser.ResultWithoutAST(main2), Files{depRes2}, syt2, reporter.NewHandler(nil))
	zz.Assert(err == nil, "C10/relinking-succeeds")
	if err != nil {
		return
	}
	out2 := res2.FileDescriptorProto()
	f2 := out2.MessageType[0].Field[0]
	x2 := out2.Extension[0]
	zz.Assert(f2.GetTypeName() == t1, "C10/type-name-unchanged")
	zz.Assert(f2.GetType() == ty1, "C10/field-type-unchanged")
	zz.Assert(x2.GetExtendee() == e1, "C10/extendee-unchanged")
}

// zzCopyFDP copies the parts of a file descriptor proto these harnesses use, field by
// field (what a serialise/parse round trip of the descriptor would hand to the next compile).
func zzCopyFDP(in *descriptorpb.FileDescriptorProto) *descriptorpb.FileDescriptorProto {
	out := &descriptorpb.FileDescriptorProto{Name: in.Name, Package: in.Package, Syntax: in.Syntax}
	out.Dependency = append(out.Dependency, in.Dependency...)
	out.PublicDependency = append(out.PublicDependency, in.PublicDependency...)
	cpField := func(f *descriptorpb.FieldDescriptorProto) *descriptorpb.FieldDescriptorProto {
		return &descriptorpb.FieldDescriptorProto{Name: f.Name, Number: f.Number, Label: f.Label, Type: f.Type, TypeName: f.TypeName, Extendee: f.Extendee, JsonName: f.JsonName}
	}
	for _, m := range in.MessageType {
		nm := &descriptorpb.DescriptorProto{Name: m.Name}
		for _, f := range m.Field {
			nm.Field = append(nm.Field, cpField(f))
		}
		for _, r := range m.ExtensionRange {
			nm.ExtensionRange = append(nm.ExtensionRange, &descriptorpb.DescriptorProto_ExtensionRange{Start: r.Start, End: r.End})
		}
		out.MessageType = append(out.MessageType, nm)
	}
	for _, e := range in.EnumType {
		ne := &descriptorpb.EnumDescriptorProto{Name: e.Name}
		for _, v := range e.Value {
			ne.Value = append(ne.Value, &descriptorpb.EnumValueDescriptorProto{Name: v.Name, Number: v.Number})
		}
		out.EnumType = append(out.EnumType, ne)
	}
	for _, f := range in.Extension {
		out.Extension = append(out.Extension, cpField(f))
	}
	return out
}
