//go:build verif

package linker

import (
	"github.com/bufbuild/protocompile/internal"
	zz "github.com/bufbuild/protocompile/internal/zzverif"
)

// HarnessC26 checks unescape(EscapeBytes(b)) == b for every byte string of length <= N,
// and that the escaped text is printable ASCII.
func HarnessC26() {
	maxN := 3
	if zz.Tier() == 1 {
		maxN = 5
	}
	n := zz.IntRange(0, maxN)
	b := zz.Bytes(n)
	esc := internal.EscapeBytes(string(b))
	for i := 0; i < len(esc); i++ {
		zz.Assert(zz.And(esc[i] >= 0x20, esc[i] < 0x7f), "C26/escaped-text-printable")
	}
	zz.ObsStr(esc)
	back := unescape(esc)
	zz.ObsStr(back)
	zz.Assert(zz.EqStr(back, string(b)), "C26/roundtrip")
	if n > 0 {
		zz.Reach("C26/nonempty")
	}
}
