//go:build verif

package linker

import (
	"google.golang.org/protobuf/proto"
	"google.golang.org/protobuf/reflect/protoreflect"
	"google.golang.org/protobuf/types/descriptorpb"

	zz "github.com/bufbuild/protocompile/internal/zzverif"
	"github.com/bufbuild/protocompile/parser"
	"github.com/bufbuild/protocompile/reporter"
)

func zzLinkFile(fdp *descriptorpb.FileDescriptorProto, deps Files) Result {
	h := reporter.NewHandler(nil)
	r, err := Link(parser.ResultWithoutAST(fdp), deps, &Symbols{}, h)
	zz.Assume(err == nil)
	return r
}

// zzBaseFile: package base; message X { extensions 100 to 200; }
func zzBaseFile() *descriptorpb.FileDescriptorProto {
	return &descriptorpb.FileDescriptorProto{
		Name: proto.String("base.proto"), Package: proto.String("base"), Syntax: proto.String("proto2"),
		MessageType: []*descriptorpb.DescriptorProto{{
			Name:           proto.String("X"),
			ExtensionRange: []*descriptorpb.DescriptorProto_ExtensionRange{{Start: proto.Int32(100), End: proto.Int32(201)}},
		}},
	}
}

var zzPkgs = []string{"", "p", "p.q"}
var zzNames = []string{"A", "B", "C"}

// zzUserFile makes a file importing base.proto with one or two messages whose names are
// chosen symbolically and optionally one extension of base.X with a symbolic tag.
func zzUserFile(path string, extName string) (*descriptorpb.FileDescriptorProto, []string, bool, int32) {
	pkg := zzPkgs[zz.Choice(len(zzPkgs))]
	fdp := &descriptorpb.FileDescriptorProto{Name: proto.String(path), Syntax: proto.String("proto2"), Dependency: []string{"base.proto"}}
	prefix := ""
	if pkg != "" {
		fdp.Package = proto.String(pkg)
		prefix = pkg + "."
	}
	var fqns []string
	nm := zz.IntRange(1, 2)
	first := zz.Choice(len(zzNames))
	for i := 0; i < nm; i++ {
		name := zzNames[(first+i)%len(zzNames)]
		fdp.MessageType = append(fdp.MessageType, &descriptorpb.DescriptorProto{Name: proto.String(name)})
		fqns = append(fqns, prefix+name)
	}
	hasExt := zz.Bool()
	var tag int32
	if hasExt {
		tag = int32(zz.U32())
		zz.Assume(zz.And(tag >= 100, tag <= 200))
		fdp.Extension = []*descriptorpb.FieldDescriptorProto{{
			Name: proto.String(extName), Number: proto.Int32(tag), Extendee: proto.String(".base.X"),
			Label: descriptorpb.FieldDescriptorProto_LABEL_OPTIONAL.Enum(), Type: descriptorpb.FieldDescriptorProto_TYPE_INT32.Enum(),
		}}
		fqns = append(fqns, prefix+extName)
	}
	return fdp, fqns, hasExt, tag
}

// HarnessC17: import f1 into a fresh table (assumed to succeed), then f2. If importing f2
// fails, every lookup by name and by (extendee, number) answers as before the attempt, and
// importing f2 again fails again. If it succeeds, f2's symbols are visible.
func HarnessC17() {
	base := zzLinkFile(zzBaseFile(), nil)
	deps := Files{base}
	fdp1, _, hasExt1, tag1 := zzUserFile("f1.proto", "e1")
	fdp2, fqns2, hasExt2, tag2 := zzUserFile("f2.proto", "e2")
	r1 := zzLinkFile(fdp1, deps)
	r2 := zzLinkFile(fdp2, deps)

	syms := &Symbols{}
	zz.Assume(syms.Import(r1, reporter.NewHandler(nil)) == nil)

	// queries: every name f2 would add, a symbolic extension number on base.X
	qtag := protoreflect.FieldNumber(int32(zz.U32()))
	zz.Assume(zz.And(qtag >= 100, qtag <= 200))
	before := make([]bool, len(fqns2))
	for i, n := range fqns2 {
		before[i] = syms.Lookup(protoreflect.FullName(n)) != nil
	}
	extBefore := syms.LookupExtension("base.X", qtag) != nil
	extOwner := ""
	if extBefore {
		extOwner = syms.LookupExtension("base.X", qtag).Start().Filename
	}

	// Recorded finding C17/extension-collision-after-commit: f2's extension number collides
	// with f1's; f2's names are committed (and the file recorded as imported) before the
	// extension numbers are checked.
	zz.KnownFor("C17/extension-collision-after-commit", zz.And(hasExt1 && hasExt2, tag1 == tag2),
		"C17/failed-import-leaves-names-unchanged", "C17/importing-the-same-file-again-fails-again")
	// the reporter either aborts on the first error (default) or accepts every error
	tolerant := zz.Bool()
	mkHandler := func() *reporter.Handler {
		if tolerant {
			return reporter.NewHandler(reporter.NewReporter(func(reporter.ErrorWithPos) error { return nil }, nil))
		}
		return reporter.NewHandler(nil)
	}
	// the file reaches the table either through Symbols.Import or by being linked against it
	viaLink := zz.Bool()
	imp := func(h *reporter.Handler) error {
		if viaLink {
			_, err := Link(parser.ResultWithoutAST(fdp2), deps, syms, h)
			return err
		}
		return syms.Import(r2, h)
	}
	h2 := mkHandler()
	err := imp(h2)
	if err == nil {
		err = h2.Error()
	}
	if err != nil {
		zz.Reach("C17/second-import-fails")
		for i, n := range fqns2 {
			after := syms.Lookup(protoreflect.FullName(n)) != nil
			zz.Assert(after == before[i], "C17/failed-import-leaves-names-unchanged")
		}
		extAfter := syms.LookupExtension("base.X", qtag)
		zz.Assert((extAfter != nil) == extBefore, "C17/failed-import-leaves-extension-numbers-unchanged")
		if extAfter != nil && extBefore {
			zz.Assert(extAfter.Start().Filename == extOwner, "C17/failed-import-leaves-extension-owner-unchanged")
		}
		h3 := mkHandler()
		err2 := imp(h3)
		if err2 == nil {
			err2 = h3.Error()
		}
		zz.Assert(err2 != nil, "C17/importing-the-same-file-again-fails-again")
	} else {
		zz.Reach("C17/second-import-succeeds")
		for _, n := range fqns2 {
			zz.Assert(syms.Lookup(protoreflect.FullName(n)) != nil, "C17/successful-import-makes-names-visible")
		}
		if hasExt2 {
			zz.Assert(syms.LookupExtension("base.X", protoreflect.FieldNumber(tag2)) != nil, "C17/successful-import-registers-extension")
		}
	}
}
