//go:build verif

package linker

import (
	"bytes"

	"google.golang.org/protobuf/proto"
	"google.golang.org/protobuf/types/descriptorpb"

	zz "github.com/bufbuild/protocompile/internal/zzverif"
	"github.com/bufbuild/protocompile/parser"
	"github.com/bufbuild/protocompile/reporter"
)

func zzCopyMsg(m *descriptorpb.DescriptorProto) *descriptorpb.DescriptorProto {
	nm := &descriptorpb.DescriptorProto{Name: m.Name}
	for _, f := range m.Field {
		nm.Field = append(nm.Field, &descriptorpb.FieldDescriptorProto{Name: f.Name, Number: f.Number, Label: f.Label, Type: f.Type, TypeName: f.TypeName, JsonName: f.JsonName})
	}
	for _, n := range m.NestedType {
		nm.NestedType = append(nm.NestedType, zzCopyMsg(n))
	}
	if m.Options != nil && m.Options.MapEntry != nil {
		nm.Options = &descriptorpb.MessageOptions{MapEntry: proto.Bool(m.Options.GetMapEntry())}
	}
	return nm
}

func zzIdentByte(c byte) bool {
	return zz.Or(zz.And(c >= 'a', c <= 'z'), zz.Or(zz.And(c >= 'A', c <= 'Z'), c == '_'))
}

// HarnessC10Map: first generation from SOURCE (real lexer, LR parser, ResultFromAST, Link):
// a proto2 message with a repeated scalar field and a map field whose names are arbitrary
// identifiers of 1..3 characters; whenever that compiles, its output descriptor proto
// (map entry message included) links again as a descriptor proto, with the map field still
// pointing at its entry.
func HarnessC10Map() {
	maxN := 2
	if zz.Tier() == 1 {
		maxN = 3
	}
	n1 := zz.Bytes(zz.IntRange(1, maxN))
	n2 := zz.Bytes(zz.IntRange(1, maxN))
	for _, c := range n1 {
		zz.Assume(zzIdentByte(c))
	}
	for _, c := range n2 {
		zz.Assume(zzIdentByte(c))
	}
	mapFirst := zz.Bool()
	jn := ""
	if zz.Bool() {
		jn = " [json_name = \"zz\"]" // a custom JSON name on the map field
	}
	var src []byte
	src = append(src, "syntax = \"proto2\";\nmessage M {\n"...)
	if mapFirst {
		src = append(src, "  map<string, string> "...)
		src = append(src, n2...)
		src = append(src, " = 1"+jn+";\n  repeated int32 "...)
		src = append(src, n1...)
		src = append(src, " = 2;\n}\n"...)
	} else {
		src = append(src, "  repeated int32 "...)
		src = append(src, n1...)
		src = append(src, " = 1;\n  map<string, string> "...)
		src = append(src, n2...)
		src = append(src, " = 2"+jn+";\n}\n"...)
	}
	h := reporter.NewHandler(nil)
	ast, err := parser.Parse("m.proto", bytes.NewReader(src), h)
	if err != nil {
		return
	}
	pr, err := parser.ResultFromAST(ast, true, h)
	if err != nil {
		return
	}
	res, err := Link(pr, nil, &Symbols{}, h)
	if err != nil {
		return // the source does not compile (keyword as name, duplicate names, ...)
	}
	zz.Reach("C10/map-source-compiled")
	out := res.FileDescriptorProto()
	zz.Assert(len(out.MessageType) == 1 && len(out.MessageType[0].NestedType) == 1, "C10/map-entry-generated")
	if len(out.MessageType) != 1 || len(out.MessageType[0].NestedType) != 1 {
		return
	}
	fd2 := &descriptorpb.FileDescriptorProto{Name: out.Name, Syntax: out.Syntax, MessageType: []*descriptorpb.DescriptorProto{zzCopyMsg(out.MessageType[0])}}
	if jn != "" {
		// option interpretation (not executed here: reflection) is what stores a custom JSON
		// name in the compiled descriptor; reproduce its effect on the map field
		for _, f := range fd2.MessageType[0].Field {
			if f.GetTypeName() != "" {
				f.JsonName = proto.String("zz")
			}
		}
	}
	res2, err := Link(parser.ResultWithoutAST(fd2), nil, &Symbols{}, reporter.NewHandler(nil))
	zz.Assert(err == nil, "C10/relinking-a-file-with-a-map-field-succeeds")
	if err != nil {
		return
	}
	m2 := res2.FileDescriptorProto().MessageType[0]
	m1 := out.MessageType[0]
	for i := range m1.Field {
		zz.Assert(m2.Field[i].GetTypeName() == m1.Field[i].GetTypeName(), "C10/map-field-type-name-unchanged")
	}
}
