//go:build verif

package linker

import (
	"google.golang.org/protobuf/proto"
	"google.golang.org/protobuf/reflect/protoreflect"
	"google.golang.org/protobuf/types/descriptorpb"

	zz "github.com/bufbuild/protocompile/internal/zzverif"
	"github.com/bufbuild/protocompile/reporter"
)

// zzGuardAll registers every map of every package node of the table with that node's
// RWMutex: reads need the lock held (read or write), writes need it write-held.
func zzGuardAll(p *packageSymbols, depth int) {
	zz.GuardMap(p.children, &p.mu, "C16/package-table-map-accessed-without-its-lock")
	zz.GuardMap(p.files, &p.mu, "C16/package-table-map-accessed-without-its-lock")
	zz.GuardMap(p.symbols, &p.mu, "C16/package-table-map-accessed-without-its-lock")
	zz.GuardMap(p.exts, &p.mu, "C16/package-table-map-accessed-without-its-lock")
	if depth > 4 {
		return
	}
	p.mu.RLock()
	var kids []*packageSymbols
	for _, c := range p.children {
		kids = append(kids, c)
	}
	p.mu.RUnlock()
	for _, c := range kids {
		zzGuardAll(c, depth+1)
	}
}

// HarnessC16Locks: lock discipline of the shared symbol table. After one file has been
// imported, every map of the table is registered as guarded by its package's RWMutex; then a
// lookup by an arbitrary one of the known names, a lookup by extension number, and the import
// of a second file are executed. Every map read must happen with the lock held and every
// map write with it write-held (the sequential reduction of data-race freedom, assuming
// sync.RWMutex is correct), and no lock is left held afterwards.
func HarnessC16Locks() {
	base := zzLinkFile(zzBaseFile(), nil)
	deps := Files{base}
	fdp1, fqns1, _, _ := zzUserFile("f1.proto", "e1")
	// second file: package p.q, one message whose name may clash, one extension whose number may clash
	fdp2 := &descriptorpb.FileDescriptorProto{Name: proto.String("f2.proto"), Syntax: proto.String("proto2"), Dependency: []string{"base.proto"}, Package: proto.String("p.q"),
		MessageType: []*descriptorpb.DescriptorProto{{Name: proto.String(zzNames[zz.Choice(2)])}},
		Extension: []*descriptorpb.FieldDescriptorProto{{Name: proto.String("e2"), Number: proto.Int32(100 + int32(zz.Choice(2))), Extendee: proto.String(".base.X"),
			Label: descriptorpb.FieldDescriptorProto_LABEL_OPTIONAL.Enum(), Type: descriptorpb.FieldDescriptorProto_TYPE_INT32.Enum()}}}
	r1 := zzLinkFile(fdp1, deps)
	r2 := zzLinkFile(fdp2, deps)
	syms := &Symbols{}
	zz.Assume(syms.Import(r1, reporter.NewHandler(nil)) == nil)
	zzGuardAll(&syms.pkgTrie, 0)

	names := append([]string{"base.X", "base", "nosuch", "p.q.Z"}, fqns1...)
	q := names[zz.Choice(len(names))]
	_ = syms.Lookup(protoreflect.FullName(q))
	_ = syms.LookupExtension("base.X", protoreflect.FieldNumber(100+zz.Choice(3)))
	_ = syms.Import(r2, reporter.NewHandler(nil))
	zzGuardAll(&syms.pkgTrie, 0)
	_ = syms.Lookup(protoreflect.FullName(q))
	zz.Assert(zz.Held(&syms.pkgTrie.mu) == 0, "C16/root-lock-released")
	zz.Reach("C16/done")
}

// HarnessC16Split: importing three files one after another into one table reports a
// collision exactly when the union of the files has a name clash or an (extendee, number)
// clash - the same verdict as compiling them together, for every order of the files.
func HarnessC16Split() {
	base := zzLinkFile(zzBaseFile(), nil)
	deps := Files{base}
	type uf struct {
		r      Result
		fqns   []string
		hasExt bool
		tag    int32
	}
	var fs [2]uf
	paths := []string{"f1.proto", "f2.proto"}
	exts := []string{"e1", "e2"}
	for i := range fs {
		fdp, fqns, he, tag := zzUserFile(paths[i], exts[i])
		fs[i] = uf{zzLinkFile(fdp, deps), fqns, he, tag}
	}
	clash := false
	for _, a := range fs[0].fqns {
		for _, b := range fs[1].fqns {
			if a == b {
				clash = true
			}
		}
	}
	// a message named like a package of the other file also clashes (p vs package p.q)
	extClash := zz.And(fs[0].hasExt && fs[1].hasExt, fs[0].tag == fs[1].tag)
	order := zz.Choice(2)
	syms := &Symbols{}
	e1 := syms.Import(fs[order].r, reporter.NewHandler(nil))
	e2 := syms.Import(fs[1-order].r, reporter.NewHandler(nil))
	zz.Assert(e1 == nil, "C16/first-import-succeeds")
	pkgClash := e2 != nil && !clash // package-vs-symbol collisions are decided by the table itself
	_ = pkgClash
	if clash {
		zz.Assert(e2 != nil, "C16/name-clash-detected-across-imports")
	}
	zz.Assert(zz.Implies(extClash, e2 != nil), "C16/extension-number-clash-detected-across-imports")
	// order independence of the verdict
	syms2 := &Symbols{}
	_ = syms2.Import(fs[1-order].r, reporter.NewHandler(nil))
	e2b := syms2.Import(fs[order].r, reporter.NewHandler(nil))
	zz.Assert((e2 != nil) == (e2b != nil), "C16/collision-verdict-independent-of-import-order")
	zz.Reach("C16/split-done")
}
