//go:build verif

package protocompile

import (
	"github.com/bufbuild/protocompile/ast"
	zz "github.com/bufbuild/protocompile/internal/zzverif"
	"github.com/bufbuild/protocompile/linker"
	"github.com/bufbuild/protocompile/reporter"
)

// HarnessC06Cycle: the cycle check that prevents deadlock, over every published
// blocked-on graph on 3 files (plus one name without a result): each file may or may not
// have a result; its blocked-on list has 0..2 entries whose names are symbolic. The check
// for task `name` waiting on `dep` must report an error exactly when, following published
// lists from dep, one reaches `name` again or runs into a cycle; and it must return.
func HarnessC06Cycle() {
	const N = 3
	names := []string{"a", "b", "c", "d"} // "d" never has a result
	e := &executor{
		c:       &Compiler{},
		h:       reporter.NewHandler(nil),
		sym:     &linker.Symbols{},
		results: map[string]*result{},
	}
	var has [N]bool
	var lists [N][]string
	for u := 0; u < N; u++ {
		has[u] = zz.Bool()
		n := zz.IntRange(0, 2)
		for k := 0; k < n; k++ {
			c := zz.Byte()
			zz.Assume(zz.And(c >= 'a', c <= 'd'))
			lists[u] = append(lists[u], string([]byte{c}))
		}
	}
	i := zz.Choice(N)
	j := zz.Choice(N)
	zz.Assume(i != j) // self-imports are rejected before the check (asFile)
	has[j] = true     // the dependency's result exists: it was just created by compile()
	for u := 0; u < N; u++ {
		if has[u] {
			r := &result{name: names[u], ready: make(chan struct{})}
			r.setBlockedOn(lists[u])
			e.results[names[u]] = r
		}
	}
	// reference: edge u->v iff u has a result and v is in its published list
	var adj [N][4]bool
	for u := 0; u < N; u++ {
		for v := 0; v < 4; v++ {
			if has[u] {
				for _, d := range lists[u] {
					adj[u][v] = zz.Or(adj[u][v], d == names[v])
				}
			}
		}
	}
	// reach[u][v]: path of length >= 1 from u to v along edges whose intermediate nodes have results
	var reach [N][4]bool
	for u := 0; u < N; u++ {
		for v := 0; v < 4; v++ {
			reach[u][v] = adj[u][v]
		}
	}
	for k := 0; k < N; k++ {
		for u := 0; u < N; u++ {
			for v := 0; v < 4; v++ {
				reach[u][v] = zz.Or(reach[u][v], zz.And(reach[u][k], reach[k][v]))
			}
		}
	}
	// from dep j: reaches name i, or reaches some node w (with a result) that lies on a cycle, or j itself on a cycle
	want := reach[j][i]
	for w := 0; w < N; w++ {
		onCycle := reach[w][w]
		want = zz.Or(want, zz.And(onCycle, zz.Or(w == j, reach[j][w])))
	}
	err := e.checkForDependencyCycle(e.results[names[j]], []string{names[i], names[j]}, ast.UnknownSpan(names[i]), map[string]struct{}{})
	zz.Assert(zz.Iff(err != nil, want), "C06/cycle-reported-iff-published-graph-has-one")
	zz.Assert((err != nil) == (e.h.Error() != nil), "C06/cycle-error-is-reported-through-the-handler")
	zz.Assert(zz.Held(&e.mu) == 0, "C06/executor-lock-released")
	zz.Reach("C06/checked")
}
