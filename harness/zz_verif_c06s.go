//go:build verif

package protocompile

import (
	"context"
	"errors"
	"sync"

	"google.golang.org/protobuf/types/descriptorpb"

	zz "github.com/bufbuild/protocompile/internal/zzverif"
	"github.com/bufbuild/protocompile/linker"
	"github.com/bufbuild/protocompile/parser"
)

var (
	zzGraphFiles []*descriptorpb.FileDescriptorProto
	zzNotFound   = errors.New("no such file")
)

type zzGraphResolver struct{}

func (zzGraphResolver) FindFileByPath(path string) (SearchResult, error) {
	for _, fd := range zzGraphFiles {
		if fd.GetName() == path {
			return SearchResult{Proto: fd}, nil
		}
	}
	return SearchResult{}, zzNotFound
}

var zzOverride bool

// zzHasOverride replaces (*executor).hasOverrideDescriptorProto (the real one compares with
// the standard-imports table, whose initialisation runs through protodesc and is not
// available under the VM): the harness decides whether descriptor.proto is overridden.
func zzHasOverride(e *executor) bool { return zzOverride }

// zzLink replaces (*task).link: linking is not the subject of the deadlock/cycle clauses.
func zzLink(t *task, parseRes parser.Result, deps linker.Files, override linker.File) (linker.File, error) {
	return nil, nil
}

// zzAsParseResult replaces (*task).asParseResult: the defensive proto.Clone (reflection) is
// skipped, the descriptor proto is wrapped as it is.
func zzAsParseResult(t *task, name string, r SearchResult) (parser.Result, error) {
	return parser.ResultWithoutAST(r.Proto), nil
}

// HarnessC06Sched: the real Compiler.Compile with the real executor, compileLocked, task
// goroutines, (*task).asFile (blocked-on publication, cycle check, semaphore release and
// re-acquire, waiting on dependency futures) over every import graph on N files (self
// imports included) and every request list, explored under EVERY goroutine schedule with a
// bounded number of preemptions at synchronisation operations: Compile returns (a state in
// which every goroutine is blocked is reported as a deadlock), fails exactly when an import
// cycle is reachable from a requested file.
func HarnessC06Sched() {
	n := 2
	pre := 2
	if zz.Tier() == 1 && zz.Choice(2) == 1 {
		n, pre = 3, 1 // thorough: additionally every graph on 3 files at delay bound 1
	}
	names := []string{"a.proto", "b.proto", "c.proto"}[:n]
	var adj [3][3]bool
	zzGraphFiles = nil
	for i := 0; i < n; i++ {
		fd := &descriptorpb.FileDescriptorProto{Name: &names[i]}
		for j := 0; j < n; j++ {
			if zz.Choice(2) == 1 {
				adj[i][j] = true
				fd.Dependency = append(fd.Dependency, names[j])
			}
		}
		zzGraphFiles = append(zzGraphFiles, fd)
	}
	zzOverride = zz.Choice(2) == 1
	if zzOverride {
		// the resolver overrides google/protobuf/descriptor.proto: every file then depends on
		// it implicitly and waits for it separately (after its explicit imports)
		dp := descriptorProtoPath
		zzGraphFiles = append(zzGraphFiles, &descriptorpb.FileDescriptorProto{Name: &dp})
	}
	nreq := 1 + zz.Choice(n)
	par := 1 + zz.Choice(2)
	// reference: a cycle reachable from a requested file
	var reach [3][3]bool
	for i := 0; i < n; i++ {
		for j := 0; j < n; j++ {
			reach[i][j] = adj[i][j]
		}
	}
	for k := 0; k < n; k++ {
		for i := 0; i < n; i++ {
			for j := 0; j < n; j++ {
				if reach[i][k] && reach[k][j] {
					reach[i][j] = true
				}
			}
		}
	}
	cyclic := false
	for r := 0; r < nreq; r++ {
		for w := 0; w < n; w++ {
			if reach[w][w] && (w == r || reach[r][w]) {
				cyclic = true
			}
		}
	}
	zz.Schedule(pre)
	c := &Compiler{Resolver: zzGraphResolver{}, MaxParallelism: par}
	_, err := c.Compile(context.Background(), names[:nreq]...)
	zz.Assert((err != nil) == cyclic, "C06/compile-fails-iff-import-cycle-reachable")
	zz.Reach("C06/compile-returned")
}

// HarnessC06SchedWitness is the vacuity guard of the interleaving scheduler: two goroutines
// append their mark under a mutex; both arrival orders must be reached (the driver requires
// every C06/ reach label), i.e. the explorer really enumerates more than one schedule.
func HarnessC06SchedWitness() {
	zz.Schedule(1)
	var mu sync.Mutex
	var wg sync.WaitGroup
	order := ""
	wg.Add(2)
	go func() { defer wg.Done(); mu.Lock(); order += "a"; mu.Unlock() }()
	go func() { defer wg.Done(); mu.Lock(); order += "b"; mu.Unlock() }()
	wg.Wait()
	zz.Assert(len(order) == 2, "C06/witness-both-goroutines-ran")
	if order == "ab" {
		zz.Reach("C06/schedule-witness-a-before-b")
	}
	if order == "ba" {
		zz.Reach("C06/schedule-witness-b-before-a")
	}
}
