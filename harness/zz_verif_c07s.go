//go:build verif

package protocompile

import (
	"context"
	"errors"

	"google.golang.org/protobuf/proto"
	"google.golang.org/protobuf/types/descriptorpb"

	zz "github.com/bufbuild/protocompile/internal/zzverif"
)

var (
	zzFaultMode [2]int // per file: 0 ok, 1 error, 2 panic, 3 blocks until the gate opens
	zzGate      chan struct{}
	zzCalls     [2]int
)

type zzFaultResolver struct{}

func (zzFaultResolver) FindFileByPath(path string) (SearchResult, error) {
	i := -1
	switch path {
	case "a.proto":
		i = 0
	case "b.proto":
		i = 1
	}
	if i < 0 {
		return SearchResult{}, zzNotFound
	}
	zzCalls[i]++
	switch zzFaultMode[i] {
	case 1:
		return SearchResult{}, zzResolveErr
	case 2:
		panic("resolver panicked")
	case 3:
		<-zzGate
	}
	fd := &descriptorpb.FileDescriptorProto{Name: proto.String(path)}
	if i == 0 {
		fd.Dependency = []string{"b.proto"}
	}
	return SearchResult{Proto: fd}, nil
}

// HarnessC07Sched: a two-file compilation (a imports b) with the real executor, task
// goroutines and asFile, a resolver that per file succeeds / fails / panics / blocks until
// released, optionally a goroutine that cancels the context at an arbitrary point, and
// MaxParallelism 1..2 - under every schedule within the delay bound: Compile returns (even
// while a resolver call is stuck, provided the context is cancelled), every reachable fault
// yields an error, a panic surfaces as PanicError when nothing else interferes, no fault
// and no cancellation means success, each file is resolved at most once, and once the
// stuck resolver is released every goroutine terminates.
func HarnessC07Sched() {
	zzFaultMode[0] = zz.Choice(4)
	zzFaultMode[1] = zz.Choice(4)
	cancelOn := zz.Choice(2) == 1
	par := 1 + zz.Choice(2)
	stuck := zzFaultMode[0] == 3 || (zzFaultMode[0] == 0 && zzFaultMode[1] == 3)
	zz.Assume(!stuck || cancelOn) // a resolver that never returns can only be escaped through cancellation
	zzCalls = [2]int{}
	zzGate = make(chan struct{})
	pre := 2
	if zz.Tier() == 1 {
		pre = 3
	}
	zz.Schedule(pre)
	ctx, cancel := context.WithCancel(context.Background())
	if cancelOn {
		go cancel()
	}
	c := &Compiler{Resolver: zzFaultResolver{}, MaxParallelism: par}
	fs, err := c.Compile(ctx, "a.proto")
	zz.Reach("C07/compile-returned")
	close(zzGate)
	zz.Quiesce() // a goroutine that cannot finish is reported as a deadlock
	cancel()
	faultA := zzFaultMode[0] == 1 || zzFaultMode[0] == 2
	faultB := zzFaultMode[0] == 0 && (zzFaultMode[1] == 1 || zzFaultMode[1] == 2)
	if faultA || faultB || stuck {
		zz.Assert(err != nil, "C07/fault-or-cancelled-stuck-resolver-yields-error")
	}
	if !cancelOn {
		if !faultA && !faultB {
			zz.Assert(err == nil && len(fs) == 1, "C07/no-fault-no-cancel-succeeds")
		}
		if zzFaultMode[0] == 2 || (zzFaultMode[0] == 0 && zzFaultMode[1] == 2) {
			var pe PanicError
			zz.Assert(errors.As(err, &pe), "C07/panic-surfaces-as-PanicError")
		}
	}
	if err == nil {
		zz.Assert(len(fs) == 1, "C07/success-returns-the-file")
	}
	zz.Assert(zzCalls[0] <= 1 && zzCalls[1] <= 1, "C07/each-file-resolved-at-most-once")
}
