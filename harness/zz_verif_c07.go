//go:build verif

package protocompile

import (
	"context"
	"errors"
	"io"

	"golang.org/x/sync/semaphore"

	zz "github.com/bufbuild/protocompile/internal/zzverif"
	"github.com/bufbuild/protocompile/linker"
	"github.com/bufbuild/protocompile/reporter"
)

// fault plan of one compile task
var (
	zzResolverMode int // 0 ok (source with closer), 1 ok (source without closer), 2 error, 3 panic
	zzAsFileMode   int // 0 ok, 1 error, 2 panic
	zzCloseMode    int // 0 nil, 1 error, 2 panic
	zzCloses       int
	zzPanicVal     any
	zzAsFileErr    = errors.New("asFile failed")
	zzResolveErr   = errors.New("resolve failed")
)

type zzSrc struct{ closer bool }

func (s *zzSrc) Read(p []byte) (int, error) { return 0, io.EOF }

type zzSrcCloser struct{ zzSrc }

func (s *zzSrcCloser) Close() error {
	zzCloses++
	switch zzCloseMode {
	case 1:
		return errors.New("close failed")
	case 2:
		panic("close panicked")
	}
	return nil
}

type zzResolver struct{}

func (zzResolver) FindFileByPath(path string) (SearchResult, error) {
	switch zzResolverMode {
	case 0:
		return SearchResult{Source: &zzSrcCloser{}}, nil
	case 1:
		return SearchResult{Source: &zzSrc{}}, nil
	case 2:
		return SearchResult{}, zzResolveErr
	}
	panic(zzPanicVal)
}

// zzAsFile replaces (*task).asFile under the VM: parsing/linking is not the subject here,
// only its three possible outcomes.
func zzAsFile(t *task, ctx context.Context, name string, r SearchResult) (linker.File, error) {
	switch zzAsFileMode {
	case 0:
		return nil, nil
	case 1:
		return nil, zzAsFileErr
	}
	panic(zzPanicVal)
}

// HarnessC07: one compile task under every fault plan (resolver ok/error/panic x asFile
// ok/error/panic x Close nil/error/panic, with or without a closer, panic value arbitrary):
// no panic escapes the task goroutine, the result is published exactly once, every fault
// yields an error, a resolver/asFile panic surfaces as PanicError carrying the value, the
// source is closed at most once and the semaphore permit is returned.
func HarnessC07() {
	zzResolverMode = zz.Choice(4)
	zzAsFileMode = zz.Choice(3)
	zzCloseMode = zz.Choice(3)
	zzCloses = 0
	pv := zz.U64()
	zzPanicVal = pv
	sem := semaphore.NewWeighted(1)
	e := &executor{
		c:       &Compiler{Resolver: zzResolver{}},
		h:       reporter.NewHandler(nil),
		s:       sem,
		cancel:  func() {},
		sym:     &linker.Symbols{},
		results: map[string]*result{},
	}
	ctx := context.Background()
	e.mu.Lock()
	r := e.compileLocked(ctx, "a.proto", true)
	e.mu.Unlock()
	zz.Assert(zz.NumSpawned() == 1, "C07/task-goroutine-started")
	zz.RunSpawned(0) // a panic escaping the goroutine would crash the process: reported as violation
	ready := false
	select {
	case <-r.ready:
		ready = true
	default:
	}
	zz.Assert(ready, "C07/result-published")
	resolverFault := zzResolverMode >= 2
	asFileReached := !resolverFault
	fault := resolverFault || (asFileReached && zzAsFileMode != 0)
	if fault {
		zz.Assert(r.err != nil, "C07/fault-yields-error")
	}
	panicked := zzResolverMode == 3 || (asFileReached && zzAsFileMode == 2)
	if panicked {
		var pe PanicError
		ok := errors.As(r.err, &pe)
		zz.Assert(ok, "C07/panic-surfaces-as-PanicError")
		if ok {
			if !(zzResolverMode == 0 && zzCloseMode == 2) {
				// (when Close panics too, Go semantics let the later panic replace the first)
				v, isU := pe.Value.(uint64)
				zz.Assert(isU && v == pv, "C07/PanicError-carries-the-panic-value")
			}
		}
	}
	if !fault && zzCloseMode != 2 {
		zz.Assert(r.err == nil, "C07/no-fault-no-error")
	}
	if zzResolverMode == 0 {
		zz.Assert(zzCloses == 1, "C07/source-closed-exactly-once")
	} else {
		zz.Assert(zzCloses == 0, "C07/no-closer-no-close")
	}
	zz.Assert(sem.TryAcquire(1), "C07/semaphore-permit-returned")
	zz.Reach("C07/done")
}
