//go:build verif

package protocompile

import (
	"context"

	"google.golang.org/protobuf/proto"
	"google.golang.org/protobuf/types/descriptorpb"

	zz "github.com/bufbuild/protocompile/internal/zzverif"
	"github.com/bufbuild/protocompile/linker"
	"github.com/bufbuild/protocompile/parser"
	"github.com/bufbuild/protocompile/reporter"
)

type zzC05Plan struct {
	aImpB, aImpC, bImpC bool
	ref                 int // type referenced by a.proto's field: index into zzC05Names
	bName, cName        int
	cNoPkg              bool // c.proto without a package: its message can collide with b.proto's in the shared table
}

var zzC05Names = []string{"B", "C", "q.B"}

func (p zzC05Plan) files() []*descriptorpb.FileDescriptorProto {
	a := &descriptorpb.FileDescriptorProto{Name: proto.String("a.proto"), Syntax: proto.String("proto2"),
		MessageType: []*descriptorpb.DescriptorProto{{Name: proto.String("A"), Field: []*descriptorpb.FieldDescriptorProto{
			{Name: proto.String("f"), Number: proto.Int32(1), Label: descriptorpb.FieldDescriptorProto_LABEL_OPTIONAL.Enum(), TypeName: proto.String(zzC05Names[p.ref])}}}}}
	if p.aImpB {
		a.Dependency = append(a.Dependency, "b.proto")
	}
	if p.aImpC {
		a.Dependency = append(a.Dependency, "c.proto")
	}
	b := &descriptorpb.FileDescriptorProto{Name: proto.String("b.proto"), Syntax: proto.String("proto2"),
		MessageType: []*descriptorpb.DescriptorProto{{Name: proto.String(zzC05Names[p.bName])}}}
	if p.bImpC {
		b.Dependency = append(b.Dependency, "c.proto")
	}
	c := &descriptorpb.FileDescriptorProto{Name: proto.String("c.proto"), Syntax: proto.String("proto2"),
		MessageType: []*descriptorpb.DescriptorProto{{Name: proto.String(zzC05Names[p.cName])}}}
	if !p.cNoPkg {
		c.Package = proto.String("q")
	}
	fs := []*descriptorpb.FileDescriptorProto{a, b, c}
	if zzOverride {
		fs = append(fs, &descriptorpb.FileDescriptorProto{Name: proto.String(descriptorProtoPath), Syntax: proto.String("proto2"), Package: proto.String("google.protobuf")})
	}
	return fs
}

// zzLinkOnly replaces (*task).link: linker.Link (symbol table, reference resolution) and the
// unused-import check run; option interpretation/validation and source info (protobuf
// reflection) are skipped - the files here carry no options.
func zzLinkOnly(t *task, parseRes parser.Result, deps linker.Files, override linker.File) (linker.File, error) {
	file, err := linker.Link(parseRes, deps, t.e.sym, t.h)
	if err != nil {
		return nil, err
	}
	if t.r.explicitFile {
		file.CheckForUnusedImports(t.h)
	}
	if err := t.h.Error(); err != nil {
		return nil, err
	}
	return file, nil
}

type zzC05Out struct {
	ok    bool
	warns int // warnings delivered to the reporter (unused imports of requested files)
	n     int
	types [3]string
}

func zzC05Compile(p zzC05Plan, par int, req []string) zzC05Out {
	zzGraphFiles = p.files()
	warns := 0
	rep := reporter.NewReporter(func(err reporter.ErrorWithPos) error { return err }, func(reporter.ErrorWithPos) { warns++ })
	c := &Compiler{Resolver: zzGraphResolver{}, MaxParallelism: par, Reporter: rep}
	fs, err := c.Compile(context.Background(), req...)
	zz.Quiesce()
	out := zzC05Out{ok: err == nil, warns: warns}
	if err == nil {
		out.n = len(fs)
		for i, f := range fs {
			// (requested files come back in request order: index them by name)
			k := 0
			switch f.Path() {
			case "b.proto":
				k = 1
			case "c.proto":
				k = 2
			}
			_ = i
			if f.Messages().Len() > 0 {
				m := f.Messages().Get(0)
				out.types[k] = string(m.FullName())
				if m.Fields().Len() > 0 && m.Fields().Get(0).Message() != nil {
					out.types[k] += " -> " + string(m.Fields().Get(0).Message().FullName())
				}
			}
		}
	}
	return out
}

// HarnessC05: the real Compile (executor, tasks, asFile, linker.Link, unused-import check,
// shared symbol table) on three files with symbolic imports, message names and one symbolic
// type reference: the outcome of a reference compilation (parallelism 1, request order
// a,b,c, default schedule) is compared with a second compilation of the same files under an
// arbitrary parallelism (1..2), an arbitrary order of the requested files, and EVERY
// goroutine schedule within the deviation budget: same success verdict and, on success, the
// same resolved names for every file.
func HarnessC05() {
	p := zzC05Plan{aImpB: zz.Choice(2) == 1, aImpC: zz.Choice(2) == 1, bImpC: zz.Choice(2) == 1, ref: zz.Choice(3), bName: zz.Choice(2), cName: zz.Choice(2)}
	orders := [][]string{{"a.proto", "b.proto", "c.proto"}, {"c.proto", "b.proto", "a.proto"}, {"b.proto", "a.proto", "c.proto"}, {"c.proto", "a.proto", "b.proto"}}
	zzOverride = false
	variant := 0
	if zz.Tier() == 1 {
		// thorough: the base configuration with a larger delay bound, plus two more
		// configurations (c.proto without package; overridden descriptor.proto, an implicit
		// dependency of every file) at the quick bound
		variant = zz.Choice(3)
		p.cNoPkg = variant == 1
		zzOverride = variant == 2
	}
	ord := orders[zz.Choice(len(orders))]
	par := 1 + zz.Choice(2)
	pre := 1 // (both tiers; the thorough tier adds configurations, not schedule depth)
	_ = variant
	zz.Schedule(0)
	want := zzC05Compile(p, 1, orders[0])
	zz.Schedule(pre)
	got := zzC05Compile(p, par, ord)
	zz.Assert(got.ok == want.ok, "C05/success-verdict-independent-of-parallelism-order-schedule")
	if got.ok && want.ok {
		zz.Assert(got.n == want.n && got.types == want.types, "C05/resolved-descriptors-independent-of-parallelism-order-schedule")
		zz.Assert(got.warns == want.warns, "C05/warnings-independent-of-parallelism-order-schedule")
		zz.Reach("C05/both-succeeded")
	}
	zz.Reach("C05/compared")
}
