//go:build verif

package protocompile

import (
	"context"
	"io"
	"strings"

	"google.golang.org/protobuf/proto"
	"google.golang.org/protobuf/types/descriptorpb"

	zz "github.com/bufbuild/protocompile/internal/zzverif"
	"github.com/bufbuild/protocompile/parser"
	"github.com/bufbuild/protocompile/reporter"
)

// zzCloneFDP stands in for proto.Clone (reflection) on the file descriptor protos used here.
func zzCloneFDP(m proto.Message) proto.Message {
	in := m.(*descriptorpb.FileDescriptorProto)
	out := &descriptorpb.FileDescriptorProto{Name: in.Name, Package: in.Package, Syntax: in.Syntax}
	out.Dependency = append(out.Dependency, in.Dependency...)
	for _, md := range in.MessageType {
		nm := &descriptorpb.DescriptorProto{Name: md.Name}
		for _, f := range md.Field {
			nm.Field = append(nm.Field, &descriptorpb.FieldDescriptorProto{Name: f.Name, Number: f.Number, Label: f.Label, Type: f.Type, TypeName: f.TypeName, JsonName: f.JsonName})
		}
		out.MessageType = append(out.MessageType, nm)
	}
	return out
}

var (
	zzFormA   int // form in which a.proto is supplied: 0 source text, 1 AST, 2 parse result, 3 descriptor proto
	zzSupplyA SearchResult
)

const zzSrcA = "syntax = \"proto2\";\nimport \"b.proto\";\nmessage A {\n  optional B f = 1;\n}\n"

func zzProtoA() *descriptorpb.FileDescriptorProto {
	return &descriptorpb.FileDescriptorProto{Name: proto.String("a.proto"), Syntax: proto.String("proto2"), Dependency: []string{"b.proto"},
		MessageType: []*descriptorpb.DescriptorProto{{Name: proto.String("A"), Field: []*descriptorpb.FieldDescriptorProto{
			{Name: proto.String("f"), Number: proto.Int32(1), Label: descriptorpb.FieldDescriptorProto_LABEL_OPTIONAL.Enum(), TypeName: proto.String("B"), JsonName: proto.String("f")}}}}}
}

type zzFormResolver struct{}

func (zzFormResolver) FindFileByPath(path string) (SearchResult, error) {
	switch path {
	case "a.proto":
		if zzFormA == 0 {
			return SearchResult{Source: io.NopCloser(strings.NewReader(zzSrcA))}, nil
		}
		return zzSupplyA, nil
	case "b.proto":
		return SearchResult{Proto: &descriptorpb.FileDescriptorProto{Name: proto.String("b.proto"), Syntax: proto.String("proto2"),
			MessageType: []*descriptorpb.DescriptorProto{{Name: proto.String("B")}}}}, nil
	}
	return SearchResult{}, zzNotFound
}

// HarnessC09Inputs: a.proto (one message with a field whose type is the relative reference
// `B`, importing b.proto) is supplied as source text, as an AST, as a parse result or as an
// unlinked descriptor proto, with MaxParallelism 1..2, through the real Compile (resolver
// result handling, asParseResult incl. its defensive copy, real lexer/parser/ResultFromAST
// for the source forms, linker.Link): every form compiles to the same resolved descriptor,
// and the supplied parse result / descriptor proto is NOT modified (its type reference is
// still the relative name and its type is still unset).
func HarnessC09Inputs() {
	zzFormA = zz.Choice(4)
	par := 1 + zz.Choice(2)
	var supplied *descriptorpb.FileDescriptorProto
	switch zzFormA {
	case 1:
		ast, err := parser.Parse("a.proto", strings.NewReader(zzSrcA), reporter.NewHandler(nil))
		zz.Assume(err == nil)
		zzSupplyA = SearchResult{AST: ast}
	case 2:
		supplied = zzProtoA()
		zzSupplyA = SearchResult{ParseResult: parser.ResultWithoutAST(supplied)}
	case 3:
		supplied = zzProtoA()
		zzSupplyA = SearchResult{Proto: supplied}
	}
	zz.AutoSchedule()
	c := &Compiler{Resolver: zzFormResolver{}, MaxParallelism: par}
	fs, err := c.Compile(context.Background(), "a.proto")
	zz.Assert(err == nil && len(fs) == 1, "C09/every-form-compiles")
	if err != nil || len(fs) != 1 {
		return
	}
	m := fs[0].Messages().Get(0)
	zz.Assert(string(m.FullName()) == "A" && m.Fields().Len() == 1, "C09/same-message-for-every-form")
	fld := m.Fields().Get(0)
	zz.Assert(fld.Message() != nil && string(fld.Message().FullName()) == "B", "C09/same-resolved-field-type-for-every-form")
	zz.Assert(string(fld.Name()) == "f" && fld.Number() == 1 && fld.JSONName() == "f", "C09/same-field-attributes-for-every-form")
	if supplied != nil {
		sf := supplied.MessageType[0].Field[0]
		zz.Assert(sf.GetTypeName() == "B" && sf.Type == nil, "C09/supplied-descriptor-proto-not-modified")
	}
	zz.Reach("C09/forms-done")
}
