//go:build verif

package sourceinfo

import (
	"google.golang.org/protobuf/types/descriptorpb"
)

// zzPathOK reports whether a source-info path names an element or field that exists in the
// descriptor: field numbers must be fields of the message type reached so far, indices of
// repeated fields must be in range. Anything below an options message is accepted.
func zzPathOK(fd *descriptorpb.FileDescriptorProto, path []int32) bool {
	return zzWalk("file", fd, path)
}

// scalar (or repeated scalar) fields per descriptor kind: number -> is repeated
var zzScalars = map[string]map[int32]bool{
	"file":     {1: false, 2: false, 3: true, 10: true, 11: true, 12: false, 14: false, 15: true},
	"msg":      {1: false, 10: true},
	"field":    {1: false, 2: false, 3: false, 4: false, 5: false, 6: false, 7: false, 9: false, 10: false, 17: false},
	"enum":     {1: false, 5: true},
	"enumval":  {1: false, 2: false},
	"svc":      {1: false},
	"method":   {1: false, 2: false, 3: false, 5: false, 6: false},
	"extrange": {1: false, 2: false},
	"resrange": {1: false, 2: false},
	"oneof":    {1: false},
}

// options field number per kind
var zzOptsField = map[string]int32{"file": 8, "msg": 7, "field": 8, "enum": 3, "enumval": 3, "svc": 3, "method": 4, "extrange": 3, "oneof": 2}

func zzWalk(kind string, at any, path []int32) bool {
	if len(path) == 0 {
		return true
	}
	f := path[0]
	if rep, ok := zzScalars[kind][f]; ok {
		if !rep {
			return len(path) == 1
		}
		// repeated scalar: the field itself, or one element
		n := zzScalarLen(kind, at, f)
		return len(path) == 1 || (len(path) == 2 && path[1] >= 0 && int(path[1]) < n)
	}
	if of, ok := zzOptsField[kind]; ok && of == f {
		return true // inside options: not validated here
	}
	childKind, kids := zzChildren(kind, at, f)
	if childKind == "" {
		return false
	}
	if len(path) == 1 {
		return true // the repeated field as a whole
	}
	i := path[1]
	if i < 0 || int(i) >= len(kids) {
		return false
	}
	return zzWalk(childKind, kids[i], path[2:])
}

func zzScalarLen(kind string, at any, f int32) int {
	switch x := at.(type) {
	case *descriptorpb.FileDescriptorProto:
		switch f {
		case 3:
			return len(x.Dependency)
		case 10:
			return len(x.PublicDependency)
		case 11:
			return len(x.WeakDependency)
		case 15:
			return len(x.OptionDependency)
		}
	case *descriptorpb.DescriptorProto:
		return len(x.ReservedName)
	case *descriptorpb.EnumDescriptorProto:
		return len(x.ReservedName)
	}
	return 0
}

func zzChildren(kind string, at any, f int32) (string, []any) {
	var out []any
	switch x := at.(type) {
	case *descriptorpb.FileDescriptorProto:
		switch f {
		case 4:
			for _, c := range x.MessageType {
				out = append(out, c)
			}
			return "msg", out
		case 5:
			for _, c := range x.EnumType {
				out = append(out, c)
			}
			return "enum", out
		case 6:
			for _, c := range x.Service {
				out = append(out, c)
			}
			return "svc", out
		case 7:
			for _, c := range x.Extension {
				out = append(out, c)
			}
			return "field", out
		}
	case *descriptorpb.DescriptorProto:
		switch f {
		case 2:
			for _, c := range x.Field {
				out = append(out, c)
			}
			return "field", out
		case 3:
			for _, c := range x.NestedType {
				out = append(out, c)
			}
			return "msg", out
		case 4:
			for _, c := range x.EnumType {
				out = append(out, c)
			}
			return "enum", out
		case 5:
			for _, c := range x.ExtensionRange {
				out = append(out, c)
			}
			return "extrange", out
		case 6:
			for _, c := range x.Extension {
				out = append(out, c)
			}
			return "field", out
		case 8:
			for _, c := range x.OneofDecl {
				out = append(out, c)
			}
			return "oneof", out
		case 9:
			for _, c := range x.ReservedRange {
				out = append(out, c)
			}
			return "resrange", out
		}
	case *descriptorpb.EnumDescriptorProto:
		switch f {
		case 2:
			for _, c := range x.Value {
				out = append(out, c)
			}
			return "enumval", out
		case 4:
			for _, c := range x.ReservedRange {
				out = append(out, c)
			}
			return "resrange", out
		}
	case *descriptorpb.ServiceDescriptorProto:
		if f == 2 {
			for _, c := range x.Method {
				out = append(out, c)
			}
			return "method", out
		}
	}
	return "", nil
}
