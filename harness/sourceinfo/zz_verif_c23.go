//go:build verif

package sourceinfo

import (
	"bytes"
	"strings"

	"google.golang.org/protobuf/types/descriptorpb"

	zz "github.com/bufbuild/protocompile/internal/zzverif"
	"github.com/bufbuild/protocompile/parser"
	"github.com/bufbuild/protocompile/reporter"
)

var zzSrcPrefixes = []string{
	"// lead\nmessage M {}\n",
	"message M {\n  // c\n  optional int32 x = 1; // t\n}\n",
	"/* a */ enum E { A = 0; /* b */ }\n",
	"syntax = \"proto3\";\n// detached\n\n// lead\npackage p;\n",
	"service S { rpc M(A) returns (B); }\n",
	"message M { oneof o { int32 a = 1; } }\n",
	"",
	"message M {\n  extensions 1 to 10;\n  enum E { A = 0; }\n  extend M { optional group G = 1 { optional int32 y = 1; } optional int32 z = 2; }\n  message In {}\n  reserved 20 to 30;\n  reserved \"r\";\n}\n",
	"import \"a.proto\";\nimport public \"b.proto\";\noption java_package = \"x\";\nextend M { optional int32 e = 1 [deprecated = true]; }\n",
}

func zzSameLoc(a, b *descriptorpb.SourceCodeInfo_Location) bool {
	if len(a.Path) != len(b.Path) || len(a.Span) != len(b.Span) {
		return false
	}
	for i := range a.Path {
		if a.Path[i] != b.Path[i] {
			return false
		}
	}
	for i := range a.Span {
		if a.Span[i] != b.Span[i] {
			return false
		}
	}
	return true
}

// HarnessC23: source code info of template sources (concrete declarations with comments,
// followed by 0..1 arbitrary bytes, accepted by the real parser), in the three modes:
// every span is well-formed (3 or 4 numbers, start no later than end) and inside the file,
// every comment is text taken from the source; extra-comments mode has exactly the standard
// locations (same paths and spans, same order); extra-option-locations mode contains the
// standard locations in order.
func HarnessC23() {
	p := zzSrcPrefixes[zz.Choice(len(zzSrcPrefixes))]
	k := 1
	if zz.Tier() == 1 {
		k = 2
	}
	tail := zz.Bytes(zz.IntRange(0, k))
	data := append([]byte(p), tail...)
	nerr := 0
	h := reporter.NewHandler(reporter.NewReporter(func(e reporter.ErrorWithPos) error { nerr++; return nil }, nil))
	file, err := parser.Parse("f.proto", bytes.NewReader(data), h)
	if err != nil || nerr > 0 || file == nil {
		return
	}
	res, err := parser.ResultFromAST(file, true, h)
	if err != nil || nerr > 0 || res == nil {
		return
	}
	zz.Reach("C23/accepted-source")
	std := GenerateSourceInfo(file, nil)
	xc := GenerateSourceInfo(file, nil, WithExtraComments())
	xo := GenerateSourceInfo(file, nil, WithExtraOptionLocations())
	nlines := 1
	for i := range data {
		nlines = zz.IteInt(data[i] == '\n', nlines+1, nlines)
	}
	src := string(data)
	check := func(sci *descriptorpb.SourceCodeInfo) {
		for _, loc := range sci.Location {
			sp := loc.Span
			zz.Assert(zzPathOK(res.FileDescriptorProto(), loc.Path), "C23/path-names-an-existing-element")
			zz.Assert(len(sp) == 3 || len(sp) == 4, "C23/span-has-3-or-4-numbers")
			if len(sp) != 3 && len(sp) != 4 {
				return
			}
			sl, sc := sp[0], sp[1]
			el, ec := sl, sp[2]
			if len(sp) == 4 {
				el, ec = sp[2], sp[3]
			}
			zz.Assert(sl >= 0 && sc >= 0 && ec >= 0, "C23/span-non-negative")
			zz.Assert(sl < el || (sl == el && sc <= ec), "C23/span-start-no-later-than-end")
			zz.Assert(zz.And(int(el) < nlines, int(sl) < nlines), "C23/span-lines-inside-file")
			for _, cmt := range append([]string{loc.GetLeadingComments(), loc.GetTrailingComments()}, loc.LeadingDetachedComments...) {
				// comment text = source text with the comment markers removed, line by line
				for _, line := range strings.Split(strings.TrimSuffix(cmt, "\n"), "\n") {
					t := strings.TrimSpace(line)
					if t != "" {
						zz.Assert(strings.Contains(src, t), "C23/comment-text-taken-from-source")
					}
				}
			}
		}
	}
	check(std)
	check(xc)
	check(xo)
	zz.Assert(len(xc.Location) == len(std.Location), "C23/extra-comments-has-the-standard-locations")
	if len(xc.Location) == len(std.Location) {
		for i := range std.Location {
			zz.Assert(zzSameLoc(std.Location[i], xc.Location[i]), "C23/extra-comments-has-the-standard-locations")
		}
	}
	j := 0
	for i := 0; i < len(xo.Location) && j < len(std.Location); i++ {
		if zzSameLoc(std.Location[j], xo.Location[i]) {
			j++
		}
	}
	zz.Assert(j == len(std.Location), "C23/extra-option-locations-only-adds-locations")
}
