//go:build verif

package protocompile

import (
	"context"
	"errors"

	zz "github.com/bufbuild/protocompile/internal/zzverif"
	"github.com/bufbuild/protocompile/ast"
	"github.com/bufbuild/protocompile/linker"
	"github.com/bufbuild/protocompile/reporter"
)

// per-file plan of the asFile stub used by HarnessC08Compile
var (
	zzPlan      [2]int // 0 silent success, 1 error reported by the task itself, 2 error reported by a task whose failure the caller ignores (the implicit descriptor.proto case), 3 warning only
	zzAbortAt   int    // the reporter aborts at the k-th error (1-based); 0 = never
	zzErrCalls  int
	zzWarnCalls int
	zzAfter     int // errors delivered to the reporter after it aborted
	zzAborted   bool
	zzAbortErr  = errors.New("reporter says stop")
)

func zzFileIndex(name string) int {
	if name == "b.proto" {
		return 1
	}
	return 0
}

// zzAsFileReporting replaces (*task).asFile: what a task can do to the handler tree is kept
// (report through its own sub-handler and fail with the handler's verdict; report through
// another task's sub-handler and succeed, as asFile does for an overridden descriptor.proto
// that was not imported explicitly; warn), parsing and linking are not.
func zzAsFileReporting(t *task, ctx context.Context, name string, r SearchResult) (linker.File, error) {
	pos := ast.UnknownSpan(name)
	switch zzPlan[zzFileIndex(name)] {
	case 1:
		if err := t.h.HandleErrorf(pos, "bad"); err != nil {
			return nil, err
		}
		return nil, t.h.Error()
	case 2:
		_ = t.e.h.SubHandler().HandleErrorf(pos, "bad implicit dependency")
		return nil, nil
	case 3:
		t.h.HandleWarningf(pos, "hm")
		return nil, nil
	}
	return nil, nil
}

// HarnessC08Compile: the real Compiler.Compile (executor, compileLocked, task goroutines run
// by the VM's run-to-completion scheduler, result futures, root handler) over two requested
// files with every combination of per-file plans and every abort point of the reporter:
// once the reporter aborted nothing more reaches it and Compile fails with that error;
// all errors accepted and >= 1 reported => ErrInvalidSource; warnings alone never fail;
// success only if no error was reported.
func HarnessC08Compile() {
	zz.AutoSchedule()
	zzPlan[0] = zz.Choice(4)
	zzPlan[1] = zz.Choice(4)
	zzAbortAt = zz.Choice(4)
	nfiles := 1 + zz.Choice(2)
	zzErrCalls, zzWarnCalls, zzAfter, zzAborted = 0, 0, 0, false
	zzResolverMode = 1
	rep := reporter.NewReporter(func(err reporter.ErrorWithPos) error {
		if zzAborted {
			zzAfter++
		}
		zzErrCalls++
		if zzErrCalls == zzAbortAt {
			zzAborted = true
			return zzAbortErr
		}
		return nil
	}, func(reporter.ErrorWithPos) { zzWarnCalls++ })
	c := &Compiler{Resolver: zzResolver{}, Reporter: rep, MaxParallelism: 1}
	names := []string{"a.proto", "b.proto"}[:nfiles]
	_, err := c.Compile(context.Background(), names...)
	zz.Assert(zzAfter == 0, "C08/nothing-reaches-the-reporter-after-abort")
	if zzAborted {
		zz.Assert(err == zzAbortErr, "C08/compile-fails-with-the-reporter-error")
	} else if zzErrCalls > 0 {
		zz.Assert(err == reporter.ErrInvalidSource, "C08/accepted-errors-yield-invalid-source")
	} else {
		zz.Assert(err == nil, "C08/no-error-reported-means-success")
	}
	if err == nil {
		zz.Assert(zzErrCalls == 0, "C08/success-only-if-no-error-reported")
	}
	zz.Reach("C08/compile-done")
}
