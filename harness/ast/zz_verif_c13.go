//go:build verif

package ast

import (
	zz "github.com/bufbuild/protocompile/internal/zzverif"
)

// HarnessC13Pos: for every text of n bytes and every offset in [0,n], SourcePos agrees with
// protoc's tokenizer rule (io/tokenizer.cc NextChar): line = 1 + number of '\n' before the
// offset; column starts at 1 after a newline, a tab advances to the next multiple of 8,
// every byte that is not a UTF-8 continuation byte advances by one.
// The line table is built per the documented AddLine contract (offset after each '\n').
func HarnessC13Pos() {
	maxN := 4
	if zz.Tier() == 1 {
		maxN = 6
	}
	n := zz.IntRange(0, maxN)
	data := zz.Bytes(n)
	fi := NewFileInfo("f", data)
	for i := 0; i < n; i++ {
		if data[i] == '\n' {
			fi.AddLine(i + 1)
		}
	}
	off := zz.IntRange(0, n)
	pos := fi.SourcePos(off)
	// reference
	line, col := 1, 0
	for i := 0; i < off; i++ {
		b := data[i]
		isNL := b == '\n'
		isTab := b == '\t'
		start := b&0xC0 != 0x80
		line = zz.IteInt(isNL, line+1, line)
		col = zz.IteInt(isNL, 0, zz.IteInt(isTab, col+8-col%8, zz.IteInt(start, col+1, col)))
	}
	zz.Obs(uint64(pos.Line))
	zz.Obs(uint64(pos.Col))
	zz.Assert(pos.Line == line, "C13/line")
	zz.Assert(pos.Col == col+1, "C13/column")
	zz.Assert(pos.Offset == off, "C13/offset")
	if off > 0 {
		zz.Reach("C13/nonzero-offset")
	}
}
