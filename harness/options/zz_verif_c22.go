//go:build verif

package options

import (
	"google.golang.org/protobuf/types/descriptorpb"

	zz "github.com/bufbuild/protocompile/internal/zzverif"
)

func zzPath(maxLen int) []int32 {
	n := zz.IntRange(0, maxLen)
	p := make([]int32, n)
	for i := range p {
		p[i] = int32(zz.U32())
	}
	return p
}

func zzIsPrefixPath(a, b []int32) bool {
	if len(a) > len(b) {
		return false
	}
	r := true
	for i := range a {
		r = zz.And(r, a[i] == b[i])
	}
	return r
}

// HarnessC22Paths: the bookkeeping that removes source code info locations pointing into
// stripped options. For every set of up to 2 removed paths (length <= 2, arbitrary int32
// elements) and up to 3 locations (paths of length <= 3): a location is dropped exactly when
// some removed path is a prefix of its path, the kept locations keep their order and
// identity, the input SourceCodeInfo is not modified, and filtering twice changes nothing.
func HarnessC22Paths() {
	mp, ml := 2, 3
	if zz.Tier() == 1 {
		mp, ml = 3, 4
	}
	np := zz.IntRange(0, mp)
	var removed [][]int32
	trie := &sourcePathTrie{}
	for i := 0; i < np; i++ {
		p := zzPath(2)
		removed = append(removed, p)
		trie.addPath(sourcePath(p))
	}
	nl := zz.IntRange(1, ml)
	in := &descriptorpb.SourceCodeInfo{}
	var orig []*descriptorpb.SourceCodeInfo_Location
	var gone []bool
	for i := 0; i < nl; i++ {
		loc := &descriptorpb.SourceCodeInfo_Location{Path: zzPath(3)}
		in.Location = append(in.Location, loc)
		orig = append(orig, loc)
		g := false
		for _, rp := range removed {
			g = zz.Or(g, zzIsPrefixPath(rp, loc.Path))
		}
		gone = append(gone, g)
		zz.Assert(zz.Iff(trie.isRemoved(loc.Path), g), "C22/isRemoved-iff-some-removed-path-is-a-prefix")
	}
	backing := in.Location
	out := stripSourcePathsForSourceRetentionOptions(in, trie)
	// input untouched
	zz.Assert(len(in.Location) == nl, "C22/input-location-list-not-modified")
	for i := 0; i < nl; i++ {
		zz.Assert(backing[i] == orig[i], "C22/input-location-list-not-modified")
	}
	// output = order-preserving sublist of the kept locations
	kept := 0
	for i := 0; i < nl; i++ {
		kept = zz.IteInt(gone[i], kept, kept+1)
	}
	zz.Assert(len(out.Location) == kept, "C22/exactly-the-locations-in-removed-options-are-dropped")
	j := 0
	for i := 0; i < nl && j < len(out.Location); i++ {
		if out.Location[j] == orig[i] {
			zz.Assert(!gone[i], "C22/kept-location-is-not-under-a-removed-path")
			j++
		} else {
			zz.Assert(gone[i], "C22/dropped-location-is-under-a-removed-path")
		}
	}
	zz.Assert(j == len(out.Location), "C22/kept-locations-keep-their-order")
	// idempotent
	out2 := stripSourcePathsForSourceRetentionOptions(out, trie)
	zz.Assert(len(out2.Location) == len(out.Location), "C22/filtering-twice-changes-nothing")
	zz.Reach("C22/filtered")
}
