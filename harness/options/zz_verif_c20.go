//go:build verif

package options

import (
	"google.golang.org/protobuf/proto"
	"google.golang.org/protobuf/types/descriptorpb"

	"github.com/bufbuild/protocompile/ast"
	zz "github.com/bufbuild/protocompile/internal/zzverif"
)

type zzFile struct{ file }

func (zzFile) FileNode() ast.FileDeclNode { return ast.NewNoSourceNode("f.proto") }

var zzScalarTypes = []descriptorpb.FieldDescriptorProto_Type{
	descriptorpb.FieldDescriptorProto_TYPE_DOUBLE, descriptorpb.FieldDescriptorProto_TYPE_FLOAT,
	descriptorpb.FieldDescriptorProto_TYPE_INT64, descriptorpb.FieldDescriptorProto_TYPE_UINT64,
	descriptorpb.FieldDescriptorProto_TYPE_INT32, descriptorpb.FieldDescriptorProto_TYPE_FIXED64,
	descriptorpb.FieldDescriptorProto_TYPE_FIXED32, descriptorpb.FieldDescriptorProto_TYPE_BOOL,
	descriptorpb.FieldDescriptorProto_TYPE_STRING, descriptorpb.FieldDescriptorProto_TYPE_BYTES,
	descriptorpb.FieldDescriptorProto_TYPE_UINT32, descriptorpb.FieldDescriptorProto_TYPE_SFIXED32,
	descriptorpb.FieldDescriptorProto_TYPE_SFIXED64, descriptorpb.FieldDescriptorProto_TYPE_SINT32,
	descriptorpb.FieldDescriptorProto_TYPE_SINT64,
}

// kind of the value in source: 0 unsigned integer u, 1 negative integer -u, 2 float, 3 identifier, 4 string
type zzVal struct {
	kind  int
	u     uint64
	f     float64
	ident string
}

func zzIntFamily(t descriptorpb.FieldDescriptorProto_Type) (bits int, signed bool, isInt bool) {
	switch t {
	case descriptorpb.FieldDescriptorProto_TYPE_INT32, descriptorpb.FieldDescriptorProto_TYPE_SINT32, descriptorpb.FieldDescriptorProto_TYPE_SFIXED32:
		return 32, true, true
	case descriptorpb.FieldDescriptorProto_TYPE_UINT32, descriptorpb.FieldDescriptorProto_TYPE_FIXED32:
		return 32, false, true
	case descriptorpb.FieldDescriptorProto_TYPE_INT64, descriptorpb.FieldDescriptorProto_TYPE_SINT64, descriptorpb.FieldDescriptorProto_TYPE_SFIXED64:
		return 64, true, true
	case descriptorpb.FieldDescriptorProto_TYPE_UINT64, descriptorpb.FieldDescriptorProto_TYPE_FIXED64:
		return 64, false, true
	}
	return 0, false, false
}

// zzRefAccept transcribes protoc's OptionInterpreter::SetOptionValue range rules
// (descriptor.cc): signed integer types take a positive value up to max or a negative value
// down to min; unsigned types take only a positive (non-negated) integer up to max; float and
// double take floats, integers and the identifiers inf/nan; bool takes the identifiers true
// and false (inside a message literal also t, f, True, False, as the text format does);
// string and bytes take string literals only.
func zzRefAccept(t descriptorpb.FieldDescriptorProto_Type, v zzVal, inLit bool) bool {
	bits, signed, isInt := zzIntFamily(t)
	switch {
	case isInt:
		switch v.kind {
		case 0:
			switch {
			case bits == 32 && signed:
				return v.u <= 1<<31-1
			case bits == 32:
				return v.u <= 1<<32-1
			case signed:
				return v.u <= 1<<63-1
			}
			return true
		case 1:
			if !signed {
				return false
			}
			if bits == 32 {
				return v.u <= 1<<31
			}
			return true
		}
		return false
	case t == descriptorpb.FieldDescriptorProto_TYPE_DOUBLE || t == descriptorpb.FieldDescriptorProto_TYPE_FLOAT:
		switch v.kind {
		case 0, 1, 2:
			return true
		case 3:
			return v.ident == "inf" || v.ident == "nan"
		}
		return false
	case t == descriptorpb.FieldDescriptorProto_TYPE_BOOL:
		if v.kind != 3 {
			return false
		}
		if v.ident == "true" || v.ident == "false" {
			return true
		}
		return inLit && (v.ident == "t" || v.ident == "f" || v.ident == "True" || v.ident == "False")
	}
	// string, bytes
	return v.kind == 4
}

func zzMkNode(v zzVal) ast.ValueNode {
	switch v.kind {
	case 0:
		return ast.NewUintLiteralNode(v.u, 0)
	case 1:
		return ast.NewNegativeIntLiteralNode(ast.NewRuneNode('-', 0), ast.NewUintLiteralNode(v.u, 1))
	case 2:
		return ast.NewFloatLiteralNode(v.f, 0)
	case 3:
		return ast.NewIdentNode(v.ident, 0)
	}
	return ast.NewStringLiteralNode("str", 0)
}

func zzPickVal() zzVal {
	v := zzVal{kind: zz.Choice(5)}
	switch v.kind {
	case 0:
		v.u = zz.U64()
	case 1:
		v.u = zz.U64()
		zz.Assume(v.u <= 1<<63) // larger magnitudes are lexed as floats
	case 2:
		v.f = []float64{0.5, 1e40, 3}[zz.Choice(3)]
	case 3:
		v.ident = []string{"true", "false", "inf", "nan", "t", "f", "True", "False", "x"}[zz.Choice(9)]
	}
	return v
}

func zzSameScalar(t descriptorpb.FieldDescriptorProto_Type, a, b any) bool {
	switch x := a.(type) {
	case int32:
		y, ok := b.(int32)
		return zz.And(ok, x == y)
	case int64:
		y, ok := b.(int64)
		return zz.And(ok, x == y)
	case uint32:
		y, ok := b.(uint32)
		return zz.And(ok, x == y)
	case uint64:
		y, ok := b.(uint64)
		return zz.And(ok, x == y)
	case bool:
		y, ok := b.(bool)
		return ok && x == y
	case string:
		y, ok := b.(string)
		return ok && x == y
	case []byte:
		y, ok := b.([]byte)
		return ok && string(x) == string(y)
	case float64:
		_, ok := b.(float64)
		return ok
	case float32:
		_, ok := b.(float32)
		return ok
	}
	return false
}

// HarnessC20Scalar: for every scalar field type and every source value (arbitrary 64-bit
// magnitude, sign, float, identifier, string): accepted exactly when protoc's range rules
// accept, with the mathematically same value.
func HarnessC20Scalar() {
	t := zzScalarTypes[zz.Choice(len(zzScalarTypes))]
	v := zzPickVal()
	inLit := zz.Bool()
	interp := &interpreter{file: zzFile{}}
	// Recorded finding C20/negative-zero-unsigned: "-0" for an unsigned type.
	_, signed, isInt := zzIntFamily(t)
	zz.Known("C20/negative-zero-unsigned", zz.And(isInt && !signed && v.kind == 1, v.u == 0))
	got, err := interp.scalarFieldValue(nil, t, zzMkNode(v), inLit)
	want := zzRefAccept(t, v, inLit)
	zz.Assert(zz.Iff(err == nil, want), "C20/scalar-accept-reject")
	if err != nil {
		return
	}
	zz.Reach("C20/accepted")
	bits, _, _ := zzIntFamily(t)
	if isInt {
		var m uint64 // two's complement value
		if v.kind == 0 {
			m = v.u
		} else {
			m = -v.u
		}
		switch x := got.(type) {
		case int32:
			zz.Assert(zz.And(bits == 32 && signed, uint64(int64(x)) == m), "C20/scalar-value")
		case uint32:
			zz.Assert(zz.And(bits == 32 && !signed, uint64(x) == m), "C20/scalar-value")
		case int64:
			zz.Assert(zz.And(bits == 64 && signed, uint64(x) == m), "C20/scalar-value")
		case uint64:
			zz.Assert(zz.And(bits == 64 && !signed, x == m), "C20/scalar-value")
		default:
			zz.Assert(false, "C20/scalar-result-type")
		}
	}
	if t == descriptorpb.FieldDescriptorProto_TYPE_BOOL {
		b, ok := got.(bool)
		zz.Assert(ok && b == (v.ident == "true" || v.ident == "t" || v.ident == "True"), "C20/bool-value")
	}
}

// HarnessC09Forms: interpreting the AST value directly and interpreting its
// descriptor-proto form (as parser.result.asUninterpretedOption produces it) agree on
// accept/reject and on the value, outside message literals.
func HarnessC09Forms() {
	t := zzScalarTypes[zz.Choice(len(zzScalarTypes))]
	v := zzPickVal()
	interp := &interpreter{file: zzFile{}}
	node := zzMkNode(v)
	a, errA := interp.scalarFieldValue(nil, t, node, false)
	// descriptor-proto form, field by field as asUninterpretedOption fills it
	opt := &descriptorpb.UninterpretedOption{}
	switch val := node.Value().(type) {
	case bool:
		if val {
			opt.IdentifierValue = proto.String("true")
		} else {
			opt.IdentifierValue = proto.String("false")
		}
	case int64:
		opt.NegativeIntValue = proto.Int64(val)
	case uint64:
		opt.PositiveIntValue = proto.Uint64(val)
	case float64:
		opt.DoubleValue = proto.Float64(val)
	case string:
		opt.StringValue = []byte(val)
	case ast.Identifier:
		opt.IdentifierValue = proto.String(string(val))
	}
	b, errB := interp.scalarFieldValueFromProto(nil, t, opt, node)
	zz.Assert((errA == nil) == (errB == nil), "C09/forms-accept-reject")
	if errA == nil && errB == nil {
		zz.Reach("C09/both-accepted")
		zz.Assert(zzSameScalar(t, a, b), "C09/forms-same-value")
	}
}
