//go:build verif

package reporter

import (
	"errors"

	"github.com/bufbuild/protocompile/ast"
	zz "github.com/bufbuild/protocompile/internal/zzverif"
)

// zzRep is a nondeterministic reporter: every Error call either accepts (returns nil) or
// aborts with a fresh error. It asserts the contract at each callback.
type zzRep struct {
	root     *Handler
	inCall   bool
	aborted  error
	errCalls int
	warnings int
}

func (r *zzRep) Error(e ErrorWithPos) error {
	zz.Assert(zz.Held(&r.root.mu) == -1, "C08/reporter-entered-only-under-root-lock")
	zz.Assert(!r.inCall, "C08/reporter-not-reentered")
	zz.Assert(r.aborted == nil, "C08/no-error-reaches-reporter-after-abort")
	r.errCalls++
	if zz.Choice(2) == 1 {
		r.aborted = errors.New("abort")
		return r.aborted
	}
	return nil
}

func (r *zzRep) Warning(e ErrorWithPos) {
	zz.Assert(zz.Held(&r.root.mu) == -1, "C08/reporter-entered-only-under-root-lock")
	zz.Assert(!r.inCall, "C08/reporter-not-reentered")
	r.warnings++
}

// HarnessC08: every sequence of k operations on a root handler and two sub-handlers.
func HarnessC08() {
	k := 3
	if zz.Tier() == 1 {
		k = 5
	}
	rep := &zzRep{}
	root := NewHandler(rep)
	rep.root = root
	hs := []*Handler{root, root.SubHandler(), root.SubHandler()}

	// oracle state
	var latch error          // first non-nil error that ended reporting (abort or plain error)
	anyPos := false          // an ErrorWithPos was handed to the reporter
	var childErr [3]error    // last value returned through handler i
	var childPos [3]bool     // an ErrorWithPos went through handler i
	var childUsed [3]bool

	n := zz.IntRange(0, k)
	for step := 0; step < n; step++ {
		hi := zz.Choice(3)
		h := hs[hi]
		switch zz.Choice(4) {
		case 0: // error with position
			callsBefore := rep.errCalls
			got := h.HandleError(Error(ast.UnknownSpan("f.proto"), errors.New("bad")))
			if latch != nil {
				zz.Assert(got == latch, "C08/after-abort-every-HandleError-returns-the-abort-error")
				zz.Assert(rep.errCalls == callsBefore, "C08/no-error-reaches-reporter-after-abort")
			} else {
				zz.Assert(rep.errCalls == callsBefore+1, "C08/error-with-position-reaches-reporter")
				anyPos = true
				zz.Assert(got == rep.aborted, "C08/HandleError-returns-reporter-result")
				latch = rep.aborted
			}
			childErr[hi], childPos[hi], childUsed[hi] = got, true, true
		case 1: // plain error (no position): fails the compilation without reaching the reporter
			callsBefore := rep.errCalls
			plain := errors.New("plain")
			got := h.HandleError(plain)
			zz.Assert(rep.errCalls == callsBefore, "C08/plain-error-does-not-reach-reporter")
			if latch != nil {
				zz.Assert(got == latch, "C08/after-abort-every-HandleError-returns-the-abort-error")
			} else {
				zz.Assert(got == plain, "C08/plain-error-returned")
				latch = plain
			}
			childErr[hi], childUsed[hi] = got, true
		case 2: // warning
			before := root.Error()
			w := rep.warnings
			h.HandleWarning(Error(ast.UnknownSpan("f.proto"), errors.New("warn")))
			zz.Assert(rep.warnings == w+1, "C08/warning-reaches-reporter")
			zz.Assert(root.Error() == before, "C08/warnings-never-change-the-outcome")
		case 3: // observe
			zz.Reach("C08/observe")
		}
		// outcome of the compilation = root.Error()
		res := root.Error()
		switch {
		case latch != nil:
			zz.Assert(res == latch, "C08/compilation-fails-with-the-reporter-error")
		case anyPos:
			zz.Assert(res == ErrInvalidSource, "C08/accepted-errors-give-ErrInvalidSource")
		default:
			zz.Assert(res == nil, "C08/no-error-reported-means-success")
		}
		zz.Assert(root.ReporterError() == latch, "C08/ReporterError")
		for i := 1; i < 3; i++ {
			ce := hs[i].Error()
			switch {
			case !childUsed[i]:
				zz.Assert(ce == nil, "C08/child-reflects-only-its-own-reports")
			case childErr[i] != nil:
				zz.Assert(ce == childErr[i], "C08/child-error")
			case childPos[i]:
				zz.Assert(ce == ErrInvalidSource, "C08/child-invalid-source")
			default:
				zz.Assert(ce == nil, "C08/child-nil")
			}
		}
		zz.Assert(zz.Held(&root.mu) == 0, "C08/root-lock-released")
	}
}
