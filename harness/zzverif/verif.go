//go:build verif

// Package zzverif is the harness API of the /verif solver-based checks. Under the
// symbolic VM every function here is intercepted (the bodies are never executed); when a
// harness is compiled natively (cross-validation and counterexample replay) the bodies
// below read the input vector and record assertion outcomes.
package zzverif

import (
	"encoding/json"
	"fmt"
	"os"
	"sort"
	"strconv"
	"sync"
	"time"
)

var (
	vec      []uint64
	pos      int
	failures []string
	known    []string
	obs      []uint64
	trace    []string
	tier     = -1
)

type assumeFailed struct{}

func next() uint64 {
	var v uint64
	if pos < len(vec) {
		v = vec[pos]
	}
	pos++
	return v
}

func Byte() byte     { return byte(next()) }
func U8() uint8      { return uint8(next()) }
func U16() uint16    { return uint16(next()) }
func U32() uint32    { return uint32(next()) }
func I32() int32     { return int32(next()) }
func Rune() rune     { return rune(next()) }
func U64() uint64    { return next() }
func I64() int64     { return int64(next()) }
func Int() int       { return int(next()) }
func Uint() uint     { return uint(next()) }
func Bool() bool     { return next()&1 == 1 }

func IntRange(lo, hi int) int {
	v := int(next())
	Assume(lo <= v && v <= hi)
	return v
}

func Choice(n int) int {
	v := next()
	Assume(v < uint64(n))
	return int(v)
}

func Bytes(n int) []byte {
	b := make([]byte, n)
	for i := range b {
		b[i] = byte(next())
	}
	return b
}

func String(n int) string { return string(Bytes(n)) }

func Assume(c bool) {
	if !c {
		panic(assumeFailed{})
	}
}

func Assert(c bool, label string) {
	if !c {
		failures = append(failures, label)
	}
}

func Reach(label string) {}

func Known(label string, c bool) {
	if c {
		known = append(known, label)
	}
}

// GuardMap declares that map m is protected by mutex mu (*sync.Mutex or *sync.RWMutex):
// under the VM every later read of m requires mu to be held and every write requires it to
// be write-held; a violation is reported under the given label. Natively it is a no-op.
func GuardMap(m any, mu any, label string) {}

// KnownFor is Known restricted to the listed assertion labels: other assertions failing on
// the same inputs are still reported as violations.
func KnownFor(label string, c bool, asserts ...string) {
	if c {
		known = append(known, label)
	}
}

func And(a, b bool) bool     { return a && b }
func Or(a, b bool) bool      { return a || b }
func Implies(a, b bool) bool { return !a || b }
func Not(a bool) bool        { return !a }
func Iff(a, b bool) bool     { return a == b }

func IteInt(c bool, a, b int) int {
	if c {
		return a
	}
	return b
}
func IteU64(c bool, a, b uint64) uint64 {
	if c {
		return a
	}
	return b
}
func IteByte(c bool, a, b byte) byte {
	if c {
		return a
	}
	return b
}
func IteI32(c bool, a, b int32) int32 {
	if c {
		return a
	}
	return b
}
func EqStr(a, b string) bool { return a == b }
func EqBytes(a, b []byte) bool { return string(a) == string(b) }

func Obs(v uint64) { obs = append(obs, v) }
func ObsStr(s string) {
	obs = append(obs, uint64(len(s)))
	for i := 0; i < len(s); i++ {
		obs = append(obs, uint64(s[i]))
	}
}
func ObsBytes(b []byte) { ObsStr(string(b)) }

// Concrete returns x (the VM forks over its feasible values in [lo,hi]).
func Concrete(x, lo, hi int) int { return x }

// Tier is 0 for the quick tier and 1 for the thorough tier.
func Tier() int {
	if tier < 0 {
		tier = 0
		if os.Getenv("VERIF_TIER") == "thorough" {
			tier = 1
		}
	}
	return tier
}

func Trace(s string)       { trace = append(trace, s) }
func TraceLen() int        { return len(trace) }
func TraceAt(i int) string { return trace[i] }

// Symbolic reports whether the harness runs under the symbolic VM in symbolic mode.
func Symbolic() bool { return false }

// Held, NumSpawned, RunSpawned, ExpectBlocked exist only under the VM; natively they are inert.
func Held(mu any) int {
	switch m := mu.(type) {
	case *sync.Mutex:
		if m.TryLock() {
			m.Unlock()
			return 0
		}
		return -1
	case *sync.RWMutex:
		if m.TryLock() {
			m.Unlock()
			return 0
		}
		if m.TryRLock() {
			m.RUnlock()
			return 1
		}
		return -1
	}
	return 0
}
func NumSpawned() int   { return 0 }
func RunSpawned(i int)  {}
func ExpectBlocked()    {}

// AutoSchedule turns on the VM's run-to-completion scheduler: a goroutine started with `go`
// runs (nested, to completion) when the running one would block. Natively inert.
func AutoSchedule() {}

// Schedule turns on the VM's interleaving scheduler: every `go` statement starts a VM thread,
// threads switch at synchronisation operations, every schedule with at most `preemptions`
// preemptive switches is explored. Natively inert (the Go runtime schedules).
func Schedule(preemptions int) {}

// Quiesce waits until every goroutine started so far has finished (VM: exactly, a goroutine
// that cannot finish is reported as a deadlock; natively: a short sleep).
func Quiesce() { time.Sleep(20 * time.Millisecond) }

// ---------------------------------------------------------------- native driver

type job struct {
	Harness string   `json:"harness"`
	Vec     []uint64 `json:"vec"`
}

type result struct {
	Status   string   `json:"status"`
	Failures []string `json:"failures"`
	Known    []string `json:"known"`
	Obs      []uint64 `json:"obs"`
	Detail   string   `json:"detail,omitempty"`
}

func runOne(f func(), v []uint64) (res result) {
	vec, pos, failures, known, obs, trace = v, 0, nil, nil, nil, nil
	res.Status = "ok"
	func() {
		defer func() {
			if r := recover(); r != nil {
				if _, ok := r.(assumeFailed); ok {
					res.Status = "assume"
					return
				}
				res.Status = "panic"
				res.Detail = fmt.Sprint(r)
			}
		}()
		f()
	}()
	sort.Strings(failures)
	res.Failures, res.Known, res.Obs = failures, known, obs
	return res
}

// RunNative executes the jobs listed in $ZZVERIF_IN and writes results to $ZZVERIF_OUT.
func RunNative(harnesses map[string]func()) error {
	in, out := os.Getenv("ZZVERIF_IN"), os.Getenv("ZZVERIF_OUT")
	if in == "" || out == "" {
		return fmt.Errorf("ZZVERIF_IN/ZZVERIF_OUT not set")
	}
	data, err := os.ReadFile(in)
	if err != nil {
		return err
	}
	var jobs []job
	if err := json.Unmarshal(data, &jobs); err != nil {
		return err
	}
	if t := os.Getenv("ZZVERIF_TIER"); t != "" {
		tier, _ = strconv.Atoi(t)
	}
	results := make([]result, len(jobs))
	for i, j := range jobs {
		f, ok := harnesses[j.Harness]
		if !ok {
			results[i] = result{Status: "no-such-harness"}
			continue
		}
		results[i] = runOne(f, j.Vec)
	}
	enc, _ := json.Marshal(results)
	return os.WriteFile(out, enc, 0o644)
}
